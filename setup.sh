#!/bin/sh
# offline self-test of the tooling the checks need; nothing is downloaded or compiled
set -e
cd "$(dirname "$0")"
python3-vt -c "import z3, sys; print('z3', z3.get_version_string(), 'python', sys.version.split()[0])"
PYTHONPATH=/verif:/repo PYTHONDONTWRITEBYTECODE=1 python3-vt -c "import core.matcher, backends.libwayland_debug_output.parse, lib.symx; print('repo modules import under the tooling interpreter')"
/venv/bin/python -c "import sys; print('replay interpreter', sys.version.split()[0])"
mkdir -p evidence replays
