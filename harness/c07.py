"""C07 -- argument names, nil types and enum labels come from the protocol descriptions"""
import os
from lib.runner import Ob
from lib import symx

LEVEL = 'model_checking'
MANIFEST = {'category': 'model_checking', 'engine': 'symx+z3',
 'technique': 'symbolic execution of the real lookup functions (through Arg.*.resolve) over a symbolic index and a symbolic 33-bit value (z3 bit-vectors), compared with an independent ElementTree reading of the XML',
 'text': 'Exhaustive over all loaded interfaces x messages x argument positions (index symbolic, incl. beyond the last argument) and, for each of the enum-typed arguments, over ALL values in [0,2^33): the label list equals the specification formula (equality / bit intersection, declaration order, sentinels). Version precedence with symbolic versions for k <= 4 descriptions. Sessions of <= 3 (4) real log lines (nil in different slots, enum and plain integers) through parse.message and Message.resolve in any order: every label depends on the line alone.',
 'note': 'Trusted: z3, lib/symx.py, xml.etree (C), spec/protocol_ref.py (independent reader, hand-tag table copied from the documentation comment). Negative argument values are outside.'}
EXPLANATION = ('The real lookup functions (through Arg.*.resolve) are executed on a symbolic argument index (small domain, concretised by forking) and on a '
               'symbolic 33-bit argument value (z3 bit-vectors) for every enum-typed argument of every loaded interface; results are compared with an independent '
               'ElementTree reading of the XML files. Version precedence: protocol.load on synthetic descriptions with symbolic versions.')
ASSUMPTIONS = ['xml.etree.ElementTree is trusted (C code)', 'argument values are in [0, 2^33) for the enum obligation (negative integers are outside)',
               'the hand-applied enum tags are the ones listed in spec/protocol_ref.py (copied from the documentation comment in load_all)']
REPO = os.environ.get('VERIF_REPO', '/repo')

_loaded = {}


def _load():
    """real load_all + independent reading (once per process)"""
    if not _loaded:
        import logging
        logging.disable(logging.CRITICAL)
        from core.wl import protocol
        from core.output import Output, stream
        from spec import protocol_ref
        protocol.dump_all()
        protocol.interfaces.clear()
        protocol.load_all(Output(False, False, stream.Null(), stream.Null()))
        _loaded['best'] = protocol_ref.read_all(REPO)
        _loaded['protocol'] = protocol
    return _loaded['protocol'], _loaded['best']


def _ref_for(protocol, best, iface):
    """the reference description matching the file the tool kept; None if the tool kept a non-maximal one"""
    real = protocol.interfaces.get(iface)
    cands = best.get(iface, [])
    if real is None or not cands:
        return None
    for d in cands:
        if real.parent is not None and os.path.realpath(d['file']) == os.path.realpath(real.parent.xml_file):
            return d
    return None


class _Obj:
    def __init__(self, type_):
        self.type = type_


class _Msg:
    def __init__(self, type_, name):
        self.obj = _Obj(type_)
        self.name = name


def positional(ctx, case):
    from core import wl
    from spec import protocol_ref
    protocol, best = _load()
    pairs = []
    for iface in case:
        ref = _ref_for(protocol, best, iface)
        if ref is None:
            ctx.check('the description kept for %s is one with the highest version' % iface, False)
            return
        ctx.check('version kept for %s' % iface, protocol.interfaces[iface].version == ref['version'])
        for m in ref['messages']:
            pairs.append((iface, m))
        ctx.check('message set of %s' % iface, list(protocol.interfaces[iface].messages.keys()) == list(ref['messages'].keys()))
    if not pairs:
        return
    iface, mname = ctx.choose(pairs, 'message')
    args = _ref_for(protocol, best, iface)['messages'][mname]
    n = len(args)
    beyond = ctx.choose([False, True], 'beyond')
    if beyond:
        idx = ctx.fresh_int('index', n + 2, 2 ** 32)
    else:
        idx = ctx.fresh_int('index', 0, n + 2, small=True)
    a = wl.Arg.Null()
    msg = _Msg(iface, mname)
    # (1) the lookup functions themselves
    raised = None
    got_name = got_iface = None
    try:
        got_name = protocol.get_arg_name(iface, mname, idx)
        got_iface = protocol.look_up_interface(iface, mname, idx)
    except RuntimeError as e:
        raised = e
    # (2) what a message line gets: Arg.resolve never fails on a position the description does not have
    a.resolve(None, msg, idx)
    if (iface, mname) == ('wl_registry', 'bind'):
        ctx.check('wl_registry.bind is exempt: no name, no type, no error', raised is None and got_name is None and a.name is None and a.type is None)
        return
    in_range = (idx < n)
    if ctx.symbolic:
        in_range = bool(in_range)
    if not in_range:
        ctx.check('index beyond the last <arg>: the lookup reports an error, never a wrong label', raised is not None)
        ctx.check('index beyond the last <arg>: the argument stays undecorated', a.name is None and a.type is None)
        return
    k = None
    for j in range(n):
        if bool(idx == j):
            k = j
            break
    ctx.check('no error for a described argument', raised is None)
    ctx.check('argument %d of %s.%s is labelled with the name of the %d-th <arg>' % (k, iface, mname, k), a.name == args[k]['name'] and got_name == args[k]['name'])
    ctx.check('nil argument is typed with the interface the protocol declares', a.type == args[k]['interface'] and got_iface == args[k]['interface'])
    ctx.note('message', '%s.%s arg %d -> %r : %r' % (iface, mname, k, a.name, a.type))


def enum_labels(ctx, case):
    from core import wl
    from spec import protocol_ref
    protocol, best = _load()
    iface, mname, k = case
    ref = _ref_for(protocol, best, iface)
    if ref is None:
        ctx.check('the description kept for %s is one with the highest version' % iface, False)
        return
    arg = ref['messages'][mname][k]
    enum = protocol_ref.enum_for(best, iface, mname, arg)
    v = ctx.fresh_bv('value', 33)
    # earlier in the session the same value was decoded for arguments of OTHER interfaces whose enum is written the same way in the XML
    # (`anchor`, `mode`, `state`, `error` ... are local names): what was worked out there says nothing about this argument
    for (i2, m2, k2) in _same_spelling(protocol, best, iface, mname, k):
        wl.Arg.Int(v).resolve(None, _Msg(i2, m2), k2)
    a = wl.Arg.Int(v)
    if arg.get('type') == 'array' and ctx.choose([False, True], 'as_array_element'):
        # an enum-tagged array (xdg_toplevel.configure states ...): GDB mode delivers the elements, each is annotated like a scalar
        arr = wl.Arg.Array([wl.Arg.Int(0), a])
        arr.resolve(None, _Msg(iface, mname), k)
        ctx.check('argument name', arr.name == arg['name'])
    else:
        a.resolve(None, _Msg(iface, mname), k)
        ctx.check('argument name', a.name == arg['name'])
    labels = getattr(a, 'labels', None)
    if enum is None:
        ctx.check('no enum declared -> no labels', labels is None)
        return
    ctx.check('an enum-typed integer is always annotated', labels is not None and len(labels) >= 1)
    if not labels:
        return
    entries = enum['entries']

    def holds(val):
        if enum['bitfield']:
            r = (val & v) != 0
        else:
            r = (v == val)
        return r
    names = [n for n, _ in entries]
    if labels == ['(none)'] or labels == ['INVALID ENUM VALUE']:
        ctx.check('sentinel matches the enum kind', labels == (['(none)'] if enum['bitfield'] else ['INVALID ENUM VALUE']))
        for n, val in entries:
            h = holds(val)
            ctx.check('sentinel only when no entry applies (%s)' % n, (not h) if isinstance(h, bool) else ~h)
    else:
        ctx.check('labels are entry names in declaration order, each once',
                  all(l in names for l in labels) and [n for n in names if n in labels] == list(labels))
        # entries with the same name cannot occur (xml attribute name is the dict key on both sides)
        for n, val in entries:
            h = holds(val)
            if n in labels:
                ctx.check('label %s shown only if its entry applies' % n, h)
            else:
                ctx.check('entry %s applies -> its label is shown' % n, (not h) if isinstance(h, bool) else ~h)
    # what the user sees
    from core import util
    saved = util.color_output
    util.color_output = False
    try:
        s = a.value_to_str()
    finally:
        util.color_output = saved
    ctx.check('rendered as value:label&label', s == str(v) + ':' + '&'.join(labels))


_SPELL = {}


def _same_spelling(protocol, best, iface, mname, k):
    """up to three arguments of other interfaces whose enum reference is spelled like this one's and denotes another enum"""
    from spec import protocol_ref
    if not _SPELL:
        for i2 in sorted(protocol.interfaces.keys()):
            ref2 = _ref_for(protocol, best, i2)
            for m2, args2 in (ref2['messages'].items() if ref2 else []):
                for k2, a2 in enumerate(args2):
                    path = protocol_ref.HAND_TAGS.get((i2, m2, a2['name'])) or a2['enum']
                    if path and (i2, m2) != ('wl_registry', 'bind'):
                        _SPELL.setdefault(path, []).append((i2, m2, k2))
    ref = _ref_for(protocol, best, iface)
    arg = ref['messages'][mname][k]
    path = protocol_ref.HAND_TAGS.get((iface, mname, arg['name'])) or arg['enum']
    mine = protocol_ref.enum_for(best, iface, mname, arg)
    out = []
    for (i2, m2, k2) in _SPELL.get(path, []):
        if i2 != iface and protocol_ref.enum_for(best, i2, m2, _ref_for(protocol, best, i2)['messages'][m2][k2]) != mine and i2 not in [o[0] for o in out]:
            out.append((i2, m2, k2))
    return out[:3]


def undeclared(ctx, case):
    """every integer argument for which the shipped descriptions (and the documented hand tags) declare NO enum stays a plain number, whatever the value"""
    from core import wl
    from spec import protocol_ref
    protocol, best = _load()
    v = ctx.fresh_bv('value', 33)
    n = 0
    for iface in case:
        ref = _ref_for(protocol, best, iface)
        for mname, args in (ref['messages'].items() if ref else []):
            if (iface, mname) == ('wl_registry', 'bind'):
                continue
            for k, arg in enumerate(args):
                if arg['type'] in ('int', 'uint') and protocol_ref.enum_for(best, iface, mname, arg) is None and not arg['enum']:
                    a = wl.Arg.Int(v)
                    a.resolve(None, _Msg(iface, mname), k)
                    n += 1
                    ctx.check('%s.%s argument %d (%s) has no enum in the protocol: it is shown as a plain number' % (iface, mname, k, arg['name']),
                              getattr(a, 'labels', None) is None and a.name == arg['name'])
    ctx.note('arguments', n)


def version_precedence(ctx, case):
    """load() on k synthetic descriptions of the same interface with symbolic versions"""
    from collections import OrderedDict
    from core.wl import protocol
    from core.output import Output, stream
    k = case
    saved = dict(protocol.interfaces)
    saved_pp = protocol.parse_protocol
    protocol.interfaces.clear()
    try:
        vs = [ctx.fresh_int('version%d' % i, 1, 1000) for i in range(k)]
        ifaces = []
        protos = {}
        for i in range(k):
            it = protocol.Interface('x_iface', vs[i], OrderedDict(), OrderedDict())
            other = protocol.Interface('other%d' % i, 1, OrderedDict(), OrderedDict())
            ifaces.append(it)
            protos['f%d.xml' % i] = protocol.Protocol('p%d' % i, 'f%d.xml' % i, OrderedDict([('x_iface', it), ('other%d' % i, other)]))
        protocol.parse_protocol = lambda f: protos[f]
        out = Output(False, False, stream.Null(), stream.Null())
        for i in range(k):
            protocol.load('f%d.xml' % i, out)
        kept = protocol.interfaces.get('x_iface')
        ctx.check('one of the loaded descriptions is kept', any(kept is it for it in ifaces))
        for i in range(k):
            ctx.check('no loaded description has a higher version than the kept one (load order irrelevant)', kept.version >= vs[i])
            ctx.check('unrelated interfaces of every file are loaded', protocol.interfaces.get('other%d' % i) is not None)
        # first among equals
        ki = [i for i in range(k) if kept is ifaces[i]]
        if ki:
            for i in range(ki[0]):
                ctx.check('among equal versions the first loaded stays', vs[i] < kept.version)
    finally:
        protocol.parse_protocol = saved_pp
        protocol.interfaces.clear()
        protocol.interfaces.update(saved)


def cross_interface_enum(ctx, case):
    """an argument whose enum belongs to ANOTHER interface (`enum="owner.mode"`) is decoded with the description of that interface that is in force -
    the highest version, whatever file it came from and whatever the load order - also when the file of the referencing interface bundles an older copy"""
    from collections import OrderedDict
    from core.wl import protocol
    from core.output import Output, stream
    saved = dict(protocol.interfaces)
    saved_pp = protocol.parse_protocol
    protocol.interfaces.clear()
    try:
        def owner(version, entries):
            enum = protocol.Enum('mode', False, OrderedDict((n, protocol.EnumEntry(n, v)) for n, v in entries))
            return protocol.Interface('owner', version, OrderedDict(), OrderedDict([('mode', enum)]))
        o_old_v = ctx.fresh_int('bundled_owner_version', 1, 1000)
        o_new_v = ctx.fresh_int('other_owner_version', 1, 1000)
        bundled = owner(o_old_v, [('slow', 1)])
        other = owner(o_new_v, [('slow', 1), ('turbo', 2)])
        user = protocol.Interface('user', 3, OrderedDict([('set_mode', protocol.Message('set_mode', False, OrderedDict([('mode', protocol.Arg('mode', 'uint', None, 'owner.mode'))])))]), OrderedDict())
        protos = {'shell.xml': protocol.Protocol('shell', 'shell.xml', OrderedDict([('user', user), ('owner', bundled)])),
                  'owner.xml': protocol.Protocol('owner', 'owner.xml', OrderedDict([('owner', other)]))}
        protocol.parse_protocol = lambda f: protos[f]
        out = Output(False, False, stream.Null(), stream.Null())
        order = ctx.choose([('shell.xml', 'owner.xml'), ('owner.xml', 'shell.xml')], 'load_order')
        for f in order:
            protocol.load(f, out)
        # the description in force: highest version, the first loaded among equals
        if order[0] == 'shell.xml':
            newer_wins = bool(o_new_v > o_old_v)
        else:
            newer_wins = bool(o_new_v >= o_old_v)
        ctx.check('the owner description in force is the highest version', protocol.interfaces.get('owner') is (other if newer_wins else bundled))
        val = ctx.choose([0, 1, 2, 3], 'value')
        want = {1: ['slow'], 2: ['turbo'] if newer_wins else ['INVALID ENUM VALUE']}.get(val, ['INVALID ENUM VALUE'])
        got = protocol.look_up_enum('user', 'set_mode', 0, val)
        ctx.check('user.set_mode(mode=%d) is labelled from the owner description in force' % val, got == want)
    finally:
        protocol.parse_protocol = saved_pp
        protocol.interfaces.clear()
        protocol.interfaces.update(saved)


def reload_after_lookup(ctx, case):
    """what the lookups answer always reflects the descriptions loaded NOW: a higher version loaded after a lookup, or a dump and reload, is seen"""
    from collections import OrderedDict
    from core.wl import protocol
    from core.output import Output, stream
    saved = dict(protocol.interfaces)
    saved_pp = protocol.parse_protocol
    protocol.interfaces.clear()
    try:
        def iface(version, argnames, enum_entries):
            args = OrderedDict((n, protocol.Arg(n, 'uint', 'wl_iface_' + n, 'e' if i == 0 else None)) for i, n in enumerate(argnames))
            msg = protocol.Message('m', False, args)
            enum = protocol.Enum('e', False, OrderedDict((n, protocol.EnumEntry(n, v)) for n, v in enum_entries))
            return protocol.Interface('x_iface', version, OrderedDict([('m', msg)]), OrderedDict([('e', enum)]))
        v1 = iface(1, ['a', 'b'], [('one', 1)])
        v2 = iface(ctx.choose([2, 3], 'newer'), ['x', 'y', 'z'], [('uno', 1), ('dos', 2)])
        protos = {'f1.xml': protocol.Protocol('p1', 'f1.xml', OrderedDict([('x_iface', v1)])), 'f2.xml': protocol.Protocol('p2', 'f2.xml', OrderedDict([('x_iface', v2)]))}
        protocol.parse_protocol = lambda f: protos[f]
        out = Output(False, False, stream.Null(), stream.Null())
        protocol.load('f1.xml', out)
        looked = ctx.choose([True, False], 'lookup_before_second_load')
        if looked:
            ctx.check('first description answers', protocol.get_arg_name('x_iface', 'm', 1) == 'b' and protocol.look_up_enum('x_iface', 'm', 0, 1) == ['one'])
        how = ctx.choose(['load-newer', 'dump-and-load-newer', 'dump-and-reload-same'], 'then')
        if how == 'load-newer':
            protocol.load('f2.xml', out)
            cur = v2
        elif how == 'dump-and-load-newer':
            protocol.dump_all()
            protocol.load('f2.xml', out)
            cur = v2
        else:
            protocol.load('f2.xml', out)
            if looked:
                protocol.get_arg_name('x_iface', 'm', 2)
            protocol.dump_all()
            protocol.load('f1.xml', out)
            cur = v1
        names = list(cur.messages['m'].args.keys())
        for i, n in enumerate(names):
            ctx.check('argument %d is named by the description in force' % i, protocol.get_arg_name('x_iface', 'm', i) == n)
            ctx.check('nil interface from the description in force', protocol.look_up_interface('x_iface', 'm', i) == 'wl_iface_' + n)
        raised = False
        try:
            protocol.get_arg_name('x_iface', 'm', len(names))
        except RuntimeError:
            raised = True
        ctx.check('beyond the last argument of the description in force: error', raised)
        ctx.check('enum labels from the description in force', protocol.look_up_enum('x_iface', 'm', 0, 1) == [list(cur.enums['e'].entries.keys())[0]])
    finally:
        protocol.parse_protocol = saved_pp
        protocol.interfaces.clear()
        protocol.interfaces.update(saved)


def unknown_interface(ctx, case):
    from core import wl
    protocol, best = _load()
    idx = ctx.fresh_int('index', 0, 2 ** 32)
    v = ctx.fresh_bv('value', 33)
    kind = ctx.choose(['int', 'nil', 'str', 'obj'], 'kind')
    a = {'int': lambda: wl.Arg.Int(v), 'nil': lambda: wl.Arg.Null(), 'str': lambda: wl.Arg.String('s'),
         'obj': lambda: wl.Arg.Fd(3)}[kind]()
    tname = ctx.choose(['zz_not_a_known_interface_v9', None], 'type')
    a.resolve(None, _Msg(tname, 'whatever'), idx)
    ctx.check('argument on an undescribed interface stays undecorated', a.name is None and not hasattr(a, 'labels') and getattr(a, 'type', None) is None)


FUNCS = ['core.wl.protocol:get_arg', 'core.wl.protocol:get_arg_name', 'core.wl.protocol:look_up_interface', 'core.wl.protocol:get_enum',
         'core.wl.protocol:look_up_enum', 'core.wl.protocol:load', 'core.wl.protocol:load_all', 'core.wl.arg:Arg.Base.resolve', 'core.wl.arg:Arg.Int.resolve',
         'core.wl.arg:Arg.Null.resolve', 'core.wl.arg:Arg.Int.value_to_str']


SESSION_LINES = [
    ('wl_surface', 5, 'set_opaque_region', 'nil'),
    ('wl_surface', 5, 'attach', 'nil, 0, 0'),
    ('wl_surface', 5, 'set_input_region', 'nil'),
    ('wl_data_offer', 7, 'accept', '3, nil'),
    ('wl_pointer', 8, 'set_cursor', '4, nil, 1, 2'),
    ('wl_data_device', 9, 'selection', 'nil'),
    ('wl_keyboard', 10, 'key', '1, 2, 30, 1'),
    ('wl_pointer', 8, 'button', '1, 2, 272, 0'),
    ('wl_seat', 11, 'capabilities', '3'),
]


def through_decoder(ctx, case):
    """labels after the REAL path a log line takes: parse.message -> Message.resolve (descriptions loaded), for sessions of several lines in
    any order: every nil / integer is labelled from ITS OWN message and position, whatever was decoded before"""
    from core import wl
    from spec import protocol_ref
    from backends.libwayland_debug_output import parse
    protocol, best = _load()
    n = case
    wl.Message.base_time = None

    class Conn:
        def wl_display(self):
            return None

        def retrieve_object(self, *a):
            raise RuntimeError('unknown object')

        def create_object(self, *a):
            raise RuntimeError('unknown object')
    conn = Conn()
    for step in range(n):
        iface, oid, mname, args = ctx.choose(SESSION_LINES, 'line%d' % step)
        sent = ctx.choose([False, True], 'sent%d' % step) if step == 0 else False
        line = '[%d.000]%s%s@%d.%s(%s)' % (1000 + step, '  -> ' if sent else ' ', iface, oid, mname, args)
        cid, m = parse.message(line)
        m.resolve(conn)
        ref = _ref_for(protocol, best, iface)['messages'][mname]
        ctx.check('`%s`: one argument per <arg>' % line, len(m.args) == len(ref))
        for k, (a, r) in enumerate(zip(m.args, ref)):
            ctx.check('step %d `%s`: argument %d is labelled %s' % (step, line, k, r['name']), a.name == r['name'])
            if isinstance(a, wl.Arg.Null):
                ctx.check('step %d `%s`: nil argument %d carries the interface the protocol declares (%s)' % (step, line, k, r['interface']), a.type == r['interface'])
            if isinstance(a, wl.Arg.Int):
                e = protocol_ref.enum_for(best, iface, mname, r)
                if e is None:
                    ctx.check('step %d `%s`: integer %d without enum is not annotated' % (step, line, k), not getattr(a, 'labels', None))
                else:
                    want = [en for en, ev in e['entries'] if ((ev & a.value) if e['bitfield'] else ev == a.value)]
                    got = [str(x) for x in (getattr(a, 'labels', None) or [])]
                    ctx.check('step %d `%s`: integer %d annotated with exactly the entries that apply (%s)' % (step, line, k, want), sorted(got) == sorted(want) or (not want and len(got) == 1))


def obligations(tier):
    from spec import protocol_ref
    protocol, best = _load()
    names = sorted(protocol.interfaces.keys())
    names = [n for n in names if n != 'fake_enums']
    chunk = 12
    pos_cases = [tuple(names[i:i + chunk]) for i in range(0, len(names), chunk)]
    enum_cases = []
    weights = {}
    for iface in names:
        ref = _ref_for(protocol, best, iface)
        if ref is None:
            continue
        for mname, args in ref['messages'].items():
            if (iface, mname) == ('wl_registry', 'bind'):
                continue
            for k, arg in enumerate(args):
                e = protocol_ref.enum_for(best, iface, mname, arg)
                if e is not None or arg['enum']:
                    w = (2 ** len(e['entries']) if e['bitfield'] else len(e['entries'])) if e else 1
                    if False:
                        continue
                    enum_cases.append((iface, mname, k))
                    weights[(iface, mname, k)] = w
    enum_cases.sort(key=lambda c: -weights[c])
    # a few arguments WITHOUT an enum (must stay unannotated)
    plain = []
    for iface in names[:40]:
        ref = _ref_for(protocol, best, iface)
        for mname, args in (ref['messages'].items() if ref else []):
            for k, arg in enumerate(args):
                if arg['type'] in ('int', 'uint') and not arg['enum'] and (iface, mname, arg['name']) not in protocol_ref.HAND_TAGS and len(plain) < 12:
                    plain.append((iface, mname, k))
    return [
        Ob('positional-lookup', 'symx', 'argument name and nil interface for every message of every loaded interface at a symbolic index (through Arg.Null.resolve)',
           FUNCS, '%d interfaces; index symbolic in [0, n+2) (forked) and in [n+2, 2^32)' % len(names), positional, cases=pos_cases,
           stubs=['Connection/Message replaced by minimal stand-ins (only obj.type and name are read)']),
        Ob('enum-labels', 'symx', 'labels of every enum-typed argument for every 33-bit value (through Arg.Int.resolve), equality vs bit-intersection, sentinels, order, rendering',
           FUNCS, '%d enum-typed arguments%s; value: all of [0, 2^33)' % (len(enum_cases), ' (bitfields with > 9 entries only in the thorough tier)' if tier == 'quick' else ''),
           enum_labels, cases=enum_cases + plain, outside='negative values'),
        Ob('undeclared-stay-plain', 'symx', 'every int/uint argument without an enum in the shipped descriptions (and outside the documented hand tags) is shown as a plain number for every value',
           FUNCS, 'all integer arguments of %d interfaces; value: all of [0, 2^33)' % len(names), undeclared, cases=pos_cases),
        Ob('version-precedence', 'symx', 'protocol.load keeps the description with the greatest version whatever the order (versions symbolic)', FUNCS[5:6],
           'k = 2, 3, 4 descriptions of one interface, versions in [1, 1000)', version_precedence, cases=[2, 3, 4] if tier != 'quick' else [2, 3],
           stubs=['parse_protocol replaced by synthetic Protocol objects']),
        Ob('cross-interface-enum', 'symx', 'an argument whose enum belongs to another interface is decoded with that interface\'s description in force (highest version), also when the referencing file bundles an older copy', FUNCS[:6],
           'symbolic versions in [1,1000) x 2 load orders x values 0..3', cross_interface_enum, cases=[None], stubs=['parse_protocol replaced by synthetic Protocol objects']),
        Ob('reload-after-lookup', 'symx', 'lookups reflect the descriptions in force after a later load of a higher version / a dump and reload', FUNCS[:6] + ['core.wl.protocol:dump_all'],
           '2 versions x lookup before or not x 3 reload orders', reload_after_lookup, cases=[None], stubs=['parse_protocol replaced by synthetic Protocol objects']),
        Ob('labels-through-the-decoder', 'symx', 'sessions of real log lines (nil in different slots, enum and plain integers) through parse.message and Message.resolve in any order: labels depend on the line alone',
           FUNCS + ['backends.libwayland_debug_output.parse:message', 'core.wl.message:Message.resolve'], 'all sequences of <= %d lines from a pool of %d' % (3 if tier == 'quick' else 4, len(SESSION_LINES)),
           through_decoder, cases=[1, 2, 3] if tier == 'quick' else [1, 2, 3, 4]),
        Ob('unknown-interface', 'symx', 'arguments of messages on undescribed interfaces (or untyped targets) stay undecorated and raise nothing', FUNCS,
           'any index, any value, 4 argument kinds', unknown_interface, cases=[None]),
    ]
