"""C17 -- colour is presentation only"""
import re, time
from lib.runner import Ob
from lib import symx, ch

LEVEL = 'model_checking'
MANIFEST = {'category': 'model_checking', 'engine': 'sre2smt+crosshair+symx+z3',
 'technique': 'regular-language queries (z3) on the live stripping regex vs every colour wrapper the code can emit; CrossHair on color()/no_color() with symbolic text; exhaustive structure exploration (symx choose) of every renderer with colour on and off; paste-back of coloured matcher/command texts',
 'text': 'Lemma (any text length): for every colour code used in the repository, the wrapper ESC[<code>m is removed exactly (the stripping regex matches the wrapper, matches no longer prefix whatever follows, and matches nothing that does not start with ESC), so no_color(color(c, t)) == t for every t without ESC; confirmed independently by CrossHair for |t| <= 3 on the real functions. Structure: every renderer (all argument kinds, labels, names, typed/untyped, resolved/unresolved objects, destroyed annotation, both directions, connection descriptions, notices, list/filter/breakpoint/connection/help output, matcher printing) run with colour on and off on the same structure with payloads from a pool that includes quotes, backslashes, spaces and non-ASCII text: stripped coloured output equals plain output, plain output has no ESC. Paste-back: coloured matcher/command text parses to the same matcher / dispatches the same command. String arguments of every length 0..128 (and 200..4096) render the same with and without colour. Which colour mode a run is in follows the documented options for all 9 x 2 x 2 x 2 combinations; a run in the no-colour mode emits no escape sequence.',
 'note': 'What carries the result from the payload pool to arbitrary payloads is the lemma plus the observation (visible on every explored path) that payload text reaches the output only through color(), repr() and concatenation - that last step is an argument, not a solver result. Payload containing ESC itself is input, not the tool\'s own colouring.'}
EXPLANATION = MANIFEST['text']
ASSUMPTIONS = ['re.sub removes leftmost non-overlapping matches (library semantics)', 'payload pool as listed in the evidence']
FUNCS = ['core.util:color', 'core.util:no_color', 'core.wl.arg:Arg.Base.__str__', 'core.wl.arg:Arg.Int.value_to_str', 'core.wl.arg:Arg.String.value_to_str', 'core.wl.arg:Arg.Null.value_to_str',
         'core.wl.arg:Arg.Object.value_to_str', 'core.wl.arg:Arg.Array.value_to_str', 'core.wl.arg:Arg.Unknown.value_to_str', 'core.wl.object:ObjectBase.to_str',
         'core.wl.object:UnresolvedObject.__str__', 'core.wl.message:Message.__str__', 'core.wl.message:Message.show', 'core.output.output:Output.unprocessed',
         'core.output.output:Output.warn', 'core.output.output:Output.error', 'core.matcher:parse', 'core.matcher:MatcherList.__str__', 'core.matcher:MessagePattern.__str__',
         'core.connection_impl:ConnectionImpl.__str__', 'frontends.tui.controller:Controller.process_command', 'frontends.tui.controller:Controller.connection_command',
         'frontends.tui.controller:Controller.show_messages', 'frontends.tui.controller:Controller.help_command']

ESC = '\x1b'


def _strip_pattern():
    """the regex no_color() really uses, captured from the live function"""
    from core import util
    seen = []

    class Rec:
        def __getattr__(self, k):
            return getattr(re, k)

        def sub(self, pattern, repl, string, *a, **k):
            seen.append((pattern, repl))
            return re.sub(pattern, repl, string, *a, **k)
    saved = util.re
    util.re = Rec()
    try:
        util.no_color('probe')
    finally:
        util.re = saved
    if len(seen) != 1 or seen[0][1] != '':
        raise RuntimeError('no_color is expected to be one re.sub(pattern, "", text); got %r' % (seen,))
    return seen[0][0]


def _codes():
    """every colour code the repository can pass to color(): module constants *_color and string literals passed to color()"""
    import ast, os, glob
    from core import util
    repo = os.environ.get('VERIF_REPO', '/repo')
    codes = {v for k, v in vars(util).items() if k.endswith('_color') and isinstance(v, str)}
    for f in glob.glob(repo + '/**/*.py', recursive=True):
        if '/test' in f or '/resources/' in f:
            continue
        try:
            tree = ast.parse(open(f).read())
        except SyntaxError:
            continue
        for node in ast.walk(tree):
            if isinstance(node, ast.Call) and getattr(node.func, 'id', getattr(node.func, 'attr', None)) == 'color' and node.args:
                a = node.args[0]
                if isinstance(a, ast.Constant) and isinstance(a.value, str):
                    codes.add(a.value)
                elif isinstance(a, ast.BinOp) and isinstance(a.left, ast.Constant) and isinstance(a.left.value, str):
                    # '1;' + str(i % 6 + 31): the rainbow banner
                    for i in range(31, 37):
                        codes.add(a.left.value + str(i))
    return sorted(codes)


def strip_lemma(case):
    from lib import sre2smt
    t0 = time.time()
    Z = sre2smt.Z()
    z3 = Z.z3
    R = sre2smt
    pat = re.compile(_strip_pattern())
    ast_, anchors = sre2smt.from_pattern(pat)
    if anchors['begin'] or anchors['end']:
        return {'status': 'error', 'detail': 'anchored stripping regex'}
    Rr = Z.re(ast_, 'plain')
    x = z3.String('x')
    any_ = z3.Star(z3.Union(Z.SIGMA, z3.Re('\n')))
    noesc = z3.Intersect(z3.Union(Z.SIGMA, z3.Re('\n')), z3.Complement(z3.Re(ESC)))
    res = {'paths': 0, 'queries': 0, 'checks': 0, 'samples': []}

    def q(name, cons, code):
        r, w = Z.check(cons, want_model_of=x)
        res['queries'] += 1
        res['paths'] += 1
        if r == 'sat':
            return {'status': 'cex', 'failed': name, 'cex': {'witness': w, 'code': code, 'query': name}}
        if r != 'unsat':
            return {'status': 'unknown', 'detail': name + ': ' + str(w)}
        res['checks'] += 1
        return None
    # matches start with ESC only
    bad = q('the stripping regex matches something that does not start with ESC (own text could be eaten)', [z3.InRe(x, Rr), z3.InRe(x, z3.Concat(noesc, any_))], None)
    if bad: res.update(bad); return res
    bad = q('the stripping regex matches the empty string', [z3.InRe(x, Rr), x == z3.StringVal('')], None)
    if bad: res.update(bad); return res
    for code in _codes() + ['0']:
        P = ESC + '[' + code + 'm'
        bad = q('wrapper for colour %r is not removed' % code, [x == z3.StringVal(P), z3.Not(z3.InRe(x, Rr))], code)
        if bad: res.update(bad); return res
        # any match starting at the wrapper is exactly the wrapper, whatever text follows
        prefixes = z3.Union(*([z3.Re(P[:i]) for i in range(0, len(P))] + [z3.Concat(z3.Re(P), z3.Plus(z3.Union(Z.SIGMA, z3.Re('\n'))))]))
        bad = q('after the wrapper for colour %r the regex can swallow following text' % code, [z3.InRe(x, Rr), z3.InRe(x, prefixes)], code)
        if bad: res.update(bad); return res
    res['samples'] = [{'pattern': pat.pattern, 'codes': _codes(), 'query': 'p in L(R) and p in Prefix(P.Sigma*) minus {P}', 'answer': 'unsat'}]
    res['status'] = 'ok'
    res['solver_s'] = time.time() - t0
    return res


def replay_strip(case, cex):
    from core import util
    w = cex['witness']
    code = cex.get('code')
    saved = util.color_output
    util.color_output = True
    try:
        if code is None:
            # a match that does not start with ESC: the plain text w is altered by stripping
            return util.no_color(w) != w, 'no_color(%r) = %r' % (w, util.no_color(w))
        tail = w[len(ESC + '[' + code + 'm'):] if w.startswith(ESC + '[' + code + 'm') else 'text'
        t = tail if ESC not in tail and tail else 'text'
        for t in (t, 'text', ';1m text', '0;3mX'):
            s = util.color(code if code != '0' else None, t)
            if util.no_color(s) != t:
                return True, 'no_color(color(%r, %r)) = %r' % (code, t, util.no_color(s))
        return False, 'stripping works on the probes'
    finally:
        util.color_output = saved


# -------------------------------------------------------------------------------- renderers
PAYLOADS = ['', 'word', 'it\'s "q" \\ and space', 'üñí©ode ✓', 'a[0m;b', 'tab\tnl\n!']


def _both(fn):
    """run fn() with colour on and off -> (coloured, plain)"""
    from core import util
    saved = util.color_output
    try:
        util.color_output = True
        c = fn()
        util.color_output = False
        p = fn()
    finally:
        util.color_output = saved
    return c, p


def _check_pair(ctx, what, c, p):
    from core import util
    if isinstance(c, list):
        ctx.check(what + ': same number of output items', len(c) == len(p))
        for a, b in zip(c, p):
            _check_pair(ctx, what, a, b)
        return
    ctx.check(what + ': plain output has no escape sequence', ESC not in p)
    ctx.check(what + ': coloured output stripped == plain output', util.no_color(c) == p)


def render_args(ctx, case):
    import logging
    logging.disable(logging.CRITICAL)
    from core import wl
    kind = case
    name = ctx.choose([None, 'serial', PAYLOADS[3]], 'name')
    pl = ctx.choose(PAYLOADS + (['<long>'] if kind in ('string', 'unknown') else []), 'payload')
    if pl == '<long>':
        # every length up to 128 characters and some longer ones (titles, paths, mime types): any shortening / wrapping must not depend on colour
        big = ctx.choose([None, 200, 255, 256, 257, 1024, 4096], 'big_length')
        pl = 'x' * (ctx.fresh_int('length', 0, 129, small=True) if big is None else big)
    n = ctx.choose([0, 7, -3, 4294967295], 'number')

    def mkobj(resolved, typed, gen):
        t = ctx_type if typed else None
        if resolved:
            o = wl.object.MockObject(None, 0.0, 12, gen, t)
        else:
            o = wl.UnresolvedObject(12, t)
        return o
    ctx_type = 'wl_surface'

    def build():
        if kind == 'int':
            a = wl.Arg.Int(n)
            labels = ctx_labels
            if labels:
                a.labels = list(labels)
        elif kind == 'float':
            a = wl.Arg.Float(ctx_float)
        elif kind == 'string':
            a = wl.Arg.String(pl)
        elif kind == 'null':
            a = wl.Arg.Null(ctx_ntype)
        elif kind == 'object':
            a = wl.Arg.Object(mkobj(*ctx_obj), ctx_new)
        elif kind == 'fd':
            a = wl.Arg.Fd(n if n >= 0 else 3)
        elif kind == 'array':
            a = wl.Arg.Array(ctx_arr)
        else:
            a = wl.Arg.Unknown(ctx_unk)
        a.name = name
        return a
    ctx_labels = ctx.choose([(), ('pressed',), ('a', 'b_c'), ('(none)',)], 'labels') if kind == 'int' else ()
    ctx_float = ctx.choose([0.0, -1.5, 1e300, float('inf')], 'float') if kind == 'float' else 0.0
    ctx_ntype = ctx.choose([None, 'wl_output'], 'ntype') if kind == 'null' else None
    ctx_obj = (ctx.choose([True, False], 'resolved'), ctx.choose([True, False], 'typed'), ctx.choose([0, 27], 'gen')) if kind == 'object' else None
    ctx_new = ctx.choose([False, True], 'new') if kind == 'object' else False
    ctx_arr = ctx.choose([None, [], [wl.Arg.Int(1), wl.Arg.Int(2)]], 'arr') if kind == 'array' else None
    ctx_unk = ctx.choose([None, pl], 'unk') if kind == 'unknown' else None
    c, p = _both(lambda: str(build()))
    _check_pair(ctx, 'argument ' + kind, c, p)
    ctx.note('plain', p)


def colour_options(ctx, case):
    """which of the two colour modes a run is in is decided by the options as documented (-C / --no-color wins over --color; otherwise --color,
    otherwise whether standard output is a terminal), and a run that decided `no colour` emits no escape sequence afterwards"""
    import io, contextlib, logging, sys
    logging.disable(logging.CRITICAL)
    from frontends.tui import arguments
    from core import util, wl, matcher
    opts = ctx.choose([[], ['-C'], ['--no-color'], ['--color'], ['-C', '--color'], ['--color', '-C'], ['--color', '--no-color'], ['--no-color', '--color', '--supress'], ['-C', '-C'],
                       # the colour option inside a cluster of single-letter flags that ends in the run / gdb marker; the program's own words decide nothing
                       ['-Cr', 'prog'], ['-Cg', 'prog'], ['-CCr', 'prog'], ['--color', '-Cg', 'prog'], ['-C', '-r', 'prog', '--color'], ['--color', '-r', 'prog', '-C'], ['-r', 'prog', '-C'],
                       ['--verbose', '-r', 'prog', '--no-color']], 'options')
    forwarded = []
    for i, o in enumerate(opts):
        if o in ('-r', '-g') or (o.startswith('-') and not o.startswith('--') and len(o) > 2 and o[-1] in 'rg'):
            ours = opts[:i] + (['-' + c for c in o[1:-1]] if len(o) > 2 else [])
            opts_ours, forwarded = ours, opts[i + 1:]
            break
    else:
        opts_ours = opts
    tty = ctx.choose([False, True], 'stdout_is_a_terminal')
    in_gdb = ctx.choose([False, True], 'inside_gdb')
    mode = ctx.choose([['-l', 'x.log'], ['-p']], 'mode')
    if forwarded and in_gdb:
        return      # a run / gdb marker inside GDB: a second mode, C19's subject

    class Out(io.StringIO):
        def isatty(self):
            return tty
    saved = (arguments.check_gdb, util.color_output)
    arguments.check_gdb = lambda: in_gdb
    a = None
    try:
        with contextlib.redirect_stdout(Out()), contextlib.redirect_stderr(io.StringIO()):
            try:
                a = arguments.parse_args(['main.py'] + opts + (mode if not in_gdb and not forwarded else []))
            except SystemExit:
                a = None
    finally:
        arguments.check_gdb = saved[0]
    ctx.check('the options are accepted', a is not None)
    if a is None:
        return
    off = any(o in ('-C', '--no-color') for o in opts_ours)
    want = False if off else (True if '--color' in opts_ours else (tty or in_gdb))
    ctx.check('colour is %s for options %r (terminal: %s, inside GDB: %s)' % ('on' if want else 'off', opts, tty, in_gdb), a.show_color is want)
    try:
        util.set_color_output(a.show_color)
        m = wl.message.MockMessage(1.5, wl.object.MockObject(None, 0.0, 7, 1, 'wl_surface'), True, 'attach', (wl.Arg.Null('wl_buffer'), wl.Arg.Int(3)))
        text = str(m) + util.color('1;31', 'x') + str(matcher.parse('wl_surface.attach(3)'))
        if not want:
            ctx.check('a run with colour off emits no escape sequence', chr(27) not in text)
    finally:
        util.color_output = saved[1]


def render_messages(ctx, case):
    import logging
    logging.disable(logging.CRITICAL)
    from core import wl, matcher
    from core.output import Output
    from lib.stubs import RecStream
    sent = ctx.choose([True, False], 'sent')
    nargs = ctx.choose([0, 1, 3], 'nargs')
    destroyed = ctx.choose([None, 'timed', 'untimed'], 'destroyed')
    tgt_kind = ctx.choose(['resolved', 'unresolved', 'untyped'], 'target')
    conn_named = ctx.choose([True, False], 'conn')
    pl = ctx.choose(PAYLOADS[1:4], 'payload')

    class C:
        def name(self): return 'B'

    def build():
        conn = C() if conn_named else None
        if tgt_kind == 'resolved':
            o = wl.object.MockObject(conn, 0.0, 5, 2, 'xdg_toplevel')
        elif tgt_kind == 'unresolved':
            o = wl.UnresolvedObject(5, 'xdg_toplevel'); o.connection = conn
        else:
            o = wl.object.MockObject(conn, 0.0, 5, 0, None)
        args = [wl.Arg.String(pl), wl.Arg.Int(3), wl.Arg.Object(wl.object.MockObject(conn, 0.0, 9, 1, 'wl_x'), True)][:nargs]
        if nargs:
            args[0].name = 'title'
        d = None
        if destroyed:
            d = wl.object.MockObject(conn, 1.0 if destroyed == 'timed' else None, 9, 0, 'wl_callback')
            if destroyed == 'timed':
                d.destroy(2.5)
        return wl.message.MockMessage(12.3456789, o, sent, 'set_title', tuple(args), d)

    def run():
        out, err = RecStream(), RecStream()
        m = build()
        m.show(Output(False, True, out, err))
        return [str(m)] + out.items
    c, p = _both(run)
    _check_pair(ctx, 'message line', c, p)
    ctx.note('plain', p[-1])


def render_session(ctx, case):
    """whole-session output: notices, message lines with real resolution, passthrough, commands"""
    import logging
    logging.disable(logging.CRITICAL)
    from core import wl, matcher
    from core.connection_manager import ConnectionManager
    from core.output import Output
    from frontends.tui.controller import Controller
    from backends.libwayland_debug_output import parse
    from core.wl import protocol
    from lib.stubs import RecStream
    from harness import c08
    c08._load_protocols()
    cmd, nlines = case[:2] if isinstance(case, tuple) else (case, 11)
    own = case[2] if isinstance(case, tuple) and len(case) > 2 else None
    lines = ['[1000.100]  -> wl_display@1.get_registry(new id wl_registry@2)', 'col1\tcol2\t\tend', 'some "chatter" \\ here', '[1000.200] wl_registry@2.global(1, "wl_seat", 7)',
             '[1000.300]  -> wl_registry@2.bind(1, "wl_seat", 7, new id [unknown]@3)', '[1003.300] wl_seat@3.capabilities(3)', '[1003.400]  -> wl_display@1.sync(new id wl_callback@4)',
             '[1003.500] wl_display@1.delete_id(4)', '[1003.600] wl_nope@9.x(nil, array, fd 5, -1.5, "it\'s")', '[1003.700] wl_seat@3.name("üñí")',
             '[1003.800]  -> wl_seat@3.get_pointer(new id wl_pointer@5)', '[1003.900] wl_pointer@5.button(1, 2, 272, 1)']

    PROG = ['\x1b[1;31mwarning: the program colours its own output and never switches it off', '\x1b[32mok\x1b[0m balanced, then \x1b[4munderlined to the end']
    if own is not None:
        # the program's own escape sequences are the program's business: passed through as they are; the tool adds none of its own when colour is off
        lines = lines[:3] + [PROG[own]] + lines[3:6] + [PROG[1 - own]] + lines[6:]
    # which side the log was taken on is only known from the direction of get_registry: a log that starts later is of `unknown type`
    side = ctx.choose(['client', 'server', 'unknown'], 'side')
    if side == 'server':
        lines[0] = '[1000.100] wl_display@1.get_registry(new id wl_registry@2)'
    elif side == 'unknown':
        lines = lines[1:]

    class F:
        def __init__(self): self.i = 0
        def readline(self):
            self.i += 1
            return lines[self.i - 1] + '\n' if self.i <= min(nlines, len(lines)) else ''

    def run():
        wl.Message.base_time = None
        out, err = RecStream(), RecStream()
        output = Output(False, True, out, err)
        mgr = ConnectionManager()
        ctlr = Controller(output, mgr, matcher.always, matcher.never)
        parse.into_sink(F(), output, mgr)
        n = len(out.items)
        ctlr.process_command(cmd)
        return out.items + ['--err--'] + err.items
    c, p = _both(run)
    if own is None:
        _check_pair(ctx, 'session + `%s`' % cmd, c, p)
    else:
        from core import util
        ctx.check('same number of output items', len(c) == len(p))
        for a, b in zip(c, p):
            rest = b
            for t in PROG:
                rest = rest.replace(t, '')
            ctx.check('colour off: the only escape sequences in the output are the program\'s own, where the program put them (the tool writes none itself)', ESC not in rest)
            ctx.check('coloured output and plain output carry the same text', util.no_color(a) == util.no_color(b))
        ctx.check('both program lines are passed through', all(any(t in b for b in p) for t in PROG[:2]) or nlines < 11)
    ctx.check('the session produced output', len(p) > nlines)


MATCHER_TEXTS = ['wl_pointer', 'wl_pointer.button', '[wl_pointer, wl_keyboard ! 7a].motion(x=0, [5, nil])', 'B: 7c', 'xdg_*@.configure(states=activated)', '* ! wl_callback',
                 'wl_surface.attach(buffer=nil)', '.new', '5.destroyed', 'wl_seat.name("a b")']
COMMAND_TEXTS = ['list wl_seat', 'filter wl_pointer', 'breakpoint ! wl_callback', 'connection A', 'help list', 'matcher wl_seat.name', 'l ~ 2', 'connection']


def _colour_tokens(ctx, text, tag):
    """wrap colour sequences around a chosen token of the text, as copying coloured output would"""
    toks = re.split(r'(\s+|[\[\](),.:!=@])', text)
    idx = [i for i, t in enumerate(toks) if t and not t.isspace()]
    k = ctx.choose(idx + ['all'], tag)
    style = ctx.choose(['1;96', '36', None], tag + '_style')
    out = []
    for i, t in enumerate(toks):
        if t and (k == 'all' or i == k) and not t.isspace():
            pre = ESC + '[' + (style if style else '0') + 'm'
            out.append(pre + t + (ESC + '[0m' if style else ''))
        else:
            out.append(t)
    return ''.join(out)


def paste_matcher(ctx, case):
    from core import matcher
    text = case
    coloured = _colour_tokens(ctx, text, 'tok')
    a = matcher.parse(text)
    b = matcher.parse(coloured)
    ctx.check('coloured matcher text parses to the same matcher', repr(a) == repr(b))
    ctx.check('and simplifies to the same matcher', repr(a.simplify()) == repr(b.simplify()))


def paste_command(ctx, case):
    import logging
    logging.disable(logging.CRITICAL)
    from core import wl, matcher, util
    from harness import ctl
    text = case
    coloured = _colour_tokens(ctx, text, 'tok')
    outs = []
    for t in (text, coloured):
        w = ctl.make_world(ctx, 1, show_stub=False)
        util.color_output = False
        ctl.add_message(w, 0)
        n = len(w.out.items)
        w.ctl.process_command(t)
        outs.append((w.out.items[n:], w.err.items, repr(w.ctl.display_matcher), repr(w.ctl.stop_matcher), w.ctl.current_connection is None))
    ctx.check('coloured command text is understood exactly as the plain text', outs[0] == outs[1])
    ctx.check('the command did something', bool(outs[0][0]) or bool(outs[0][1]))


def obligations(tier):
    T = 90 if tier == 'quick' else 300
    obs = [
        Ob('strip-lemma-unbounded', 'smt', 'for every colour code in the repository the stripping regex removes exactly the wrapper, whatever text follows; matches start with ESC only', FUNCS[:2],
           'text of any length; %d colour codes collected from the source' % len(_codes()), strip_lemma, cases=[None], replay=replay_strip),
        ch.ob('strip-inverts-wrap', 'harness.ch_c17', 'strip_inverts_wrap', 'no_color(color(c, t)) == t on the real functions, symbolic t', FUNCS[:2], '|t| <= 3 without ESC; all colour constants', T),
        ch.ob('strip-inverts-reset-wrap', 'harness.ch_c17', 'strip_inverts_reset_wrap', 'same for the colour-less (reset only) wrapper', FUNCS[:2], '|t| <= 3', T),
        ch.ob('colour-off-is-identity', 'harness.ch_c17', 'off_is_identity', 'with colour disabled color() returns its text unchanged', FUNCS[:1], '|t| <= 4, any characters', T),
        ch.ob('strip-leaves-plain-text', 'harness.ch_c17', 'strip_leaves_plain_text', 'no_color is the identity on text without ESC', FUNCS[1:2], '|t| <= 4', T),
        ch.ob('strip-reachable', 'harness.ch_c17', 'twin_strip', 'reachability twin', FUNCS[:2], '', T, expect_cex=True),
        Ob('render-arguments', 'symx', 'every argument kind x name x labels x typed/resolved/new x payload pool: coloured stripped == plain', FUNCS[2:11], 'structure exhaustive over the listed choices; payload pool of %d texts' % len(PAYLOADS),
           render_args, cases=['int', 'float', 'string', 'null', 'object', 'fd', 'array', 'unknown']),
        Ob('colour-options', 'symx', 'which colour mode a run is in follows the documented options (-C/--no-color wins, then --color, then terminal / GDB); a run in the no-colour mode emits no escape sequence',
           ['frontends.tui.arguments:parse_args', 'core.util:set_color_output', 'core.util:color'], '9 option vectors x terminal or not x inside GDB or not x 2 modes', colour_options, cases=[None]),
        Ob('render-messages', 'symx', 'Message.__str__/show: direction, target kinds, arguments, destroyed annotation, connection prefix', FUNCS[11:13], 'structure exhaustive over the listed choices', render_messages, cases=[None]),
        Ob('render-session', 'symx', 'a whole decoded session (notices, resolution, enum labels, passthrough, unknown interface) followed by one command, colour on vs off', FUNCS[11:],
           '11-line log; commands: list, list with matcher, filter, breakpoint, connection, help, help matcher, matcher, unknown, empty', render_session,
           cases=['list', 'list wl_seat ~ 2', 'filter wl_pointer ! wl_callback', 'breakpoint wl_seat.name', 'connection', 'connection A', 'connection zz', 'help', 'help list', 'help matcher',
                  'matcher [a, b ! c].d(e=1, "s")', 'zzz', '', 'l [', 'filter', 'breakpoint', 'filter wl_pointer(! x=0)', 'matcher .motion(! 5, nil)', 'breakpoint (! nil)', 'filter (x=0 ! y=1)', 'filter [', 'breakpoint a(b', 'list a.b.c'] +
                 [(c, n) for n in (0, 1, 2, 3) for c in ('list', 'list wl_nothing', 'list wl_registry ~ 1', 'connection', 'connection A', 'filter wl_nothing')] +
                 [(c, 13, own) for own in (0, 1) for c in ('list', 'connection', 'help', 'zzz')]),
        Ob('paste-back-matcher', 'symx', 'colour sequences around any token (or all tokens) of a matcher text do not change what it parses to', FUNCS[16:17], '%d matcher texts x every token x 3 styles' % len(MATCHER_TEXTS),
           paste_matcher, cases=MATCHER_TEXTS),
        Ob('paste-back-command', 'symx', 'colour sequences around any token of a command line do not change what it does', FUNCS[20:21], '%d command lines x every token x 3 styles' % len(COMMAND_TEXTS),
           paste_command, cases=COMMAND_TEXTS),
    ]
    return obs
