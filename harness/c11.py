"""C11 -- `list` returns exactly the recorded messages that match, with honest counts"""
import re
from lib.runner import Ob
from lib import symx
from harness import ctl

LEVEL = 'model_checking'
MANIFEST = {'category': 'model_checking', 'engine': 'symx+z3',
 'technique': 'symbolic execution of the real Controller.list_command/show_messages/_get_matching over recorded histories with solver-chosen matcher verdicts and a symbolic cap',
 'text': 'For every recorded history of <= 5 messages on <= 2 connections, every selection, every verdict vector of an abstract matcher (symbolic booleans) and every cap N (symbolic integer or absent), z3 proves that the lines shown are exactly the matching messages of the scope, oldest first, the last N of them for N >= 1, that the counts add up, that a repeated query prints the same, and that filter, breakpoint, selection and records are untouched.',
 'note': 'Trusted: z3, lib/symx.py. Matchers are abstract leaves (what a real matcher selects is C05); message line text is stubbed (C16/C17). N < 0 is outside (the statement says N >= 1; 0 = no cap as the code documents).'}
EXPLANATION = MANIFEST['text']
ASSUMPTIONS = ['abstract matcher leaves: verdict fixed per message', 'Message.show stubbed to a tagged line', 'histories recorded through ConnectionManager.message']

FUNCS = ['frontends.tui.controller:Controller.list_command', 'frontends.tui.controller:Controller.show_messages', 'frontends.tui.controller:Controller._get_matching',
         'frontends.tui.controller:Controller.parse_and_join', 'frontends.tui.controller:Controller.connection_command', 'core.connection_impl:ConnectionImpl.messages']

COUNT_RE = re.compile(r"^\((\d+) matched, (\d+) didn't(?:, (\d+) not checked)?\)$")


def _verdict(m, msg):
    return m.verdict(msg) if isinstance(m, ctl.SymLeaf) else bool(m.matches(msg))


def listing(ctx, case):
    via, assign, sel = case[:3]
    rec_sel = case[3] if len(case) > 3 else None     # the connection selected WHILE the history was recorded
    from core import matcher
    from frontends.tui import controller as cmod
    z = symx.z3() if ctx.symbolic else None
    w = ctl.make_world(ctx, 2)
    try:
        if rec_sel is not None:
            w.ctl.connection_command(w.conns[rec_sel].name())
        from core import wl
        # one message of the history is of a kind the connection-naming code looks at, in a form it chokes on: it is recorded like any other
        naming = ctx.choose(['plain', 'title-empty', 'app-id-not-a-string', 'layer-surface-short'], 'naming_message') if assign else 'plain'
        nm = {'plain': ('sync', ()), 'title-empty': ('set_title', (wl.Arg.String(''),)), 'app-id-not-a-string': ('set_app_id', (wl.Arg.Int(3),)),
              'layer-surface-short': ('get_layer_surface', (wl.Arg.Int(1),))}[naming]
        for k, ci in enumerate(assign):
            # every other message of longer histories is on an object the connection could not resolve
            # odd-length histories share one time stamp (a burst): `oldest first` is the recording order, not the clock
            ctl.add_message(w, ci, t=(7.5 if len(assign) % 2 == 1 else None), target_id=99 if (len(assign) >= 3 and k % 2 == 1) else 1,
                            name=nm[0] if k == len(assign) // 2 else 'sync', args=nm[1] if k == len(assign) // 2 else ())
        if rec_sel is not None and sel is None:
            w.ctl.connection_command('all')
        # the matcher listed by (and the current filter): an abstract leaf with a solver-chosen verdict per message, or one of the two constants
        # the parser really produces (`*`, the default filter, and `!`) - code may treat constants specially
        const = ctx.choose(['leaf', 'always', 'never'], 'matcher_kind')
        F = ctl.SymLeaf(ctx, 'filter') if const == 'leaf' else (matcher.always if const == 'always' else matcher.never)
        B = ctl.SymLeaf(ctx, 'break', always=False)
        L = ctl.SymLeaf(ctx, 'listed') if const == 'leaf' else (matcher.always if const == 'always' else matcher.never)
        w.ctl.display_matcher = F
        w.ctl.stop_matcher = B
        if sel is not None:
            w.ctl.connection_command(w.conns[sel].name())
        ctx.check('selection set by the connection command', w.ctl.current_connection is (w.conns[sel] if sel is not None else None))
        scope = [m for (m, ci) in w.msgs if sel is None or ci == sel]
        used = L
        if via == 'show':
            cap = ctx.choose(['absent', 'sym'], 'cap_kind')
            cap = None if cap == 'absent' else ctx.fresh_int('cap', 0, len(assign) + 3)
            call = lambda: w.ctl.show_messages(w.ctl.current_connection, L, cap)
        else:
            form = ctx.choose(['', 'X', 'X ~ 0', 'X ~ 1', 'X ~ 2', 'X~3', '~ 1', '~2', 'X ~ 9', 'X ~ 10', 'X ~ 12', '~ 21', 'X ~ 03'], 'text')
            saved_parse = matcher.parse
            texts = []
            def fake_parse(text):
                texts.append(text)
                return L
            matcher.parse = fake_parse
            if '~' in form:
                cap = int(form.split('~')[1])
            else:
                cap = None
            if form.split('~')[0].strip() == '':
                used = F
            call = lambda: w.ctl.process_command(ctx.choose(['list ', 'l ', 'wllist '], 'spelling') + form)
        before = (w.ctl.display_matcher, w.ctl.stop_matcher, w.ctl.current_connection, list(w.ctl.all_messages),
                  [c.messages() for c in w.conns], w.ctl.last_shown_timestamp)
        n0 = len(w.out.items)
        try:
            call()
            first = list(w.out.items[n0:])
            n1 = len(w.out.items)
            call()
            second = list(w.out.items[n1:])
        finally:
            if via != 'show':
                matcher.parse = saved_parse
        ctx.check('no error output', w.err.items == [])
        shown = ctl.msg_lines(first)
        ctx.check('header line first', len(first) >= 2 and first[0].startswith('Messages that match'))
        ctx.check('repeated query prints the same', first == second)
        tags = [m.tag for m in scope]
        ctx.check('only recorded messages of the selected scope are shown, each at most once, oldest first',
                  all(t in tags for t in shown) and shown == sorted(set(shown)))
        # shown_i <=> v_i and (no cap or fewer than N matches among the later messages of the scope)
        vs = [_verdict(used, m) for m in scope]
        for i, m in enumerate(scope):
            later = vs[i + 1:]
            real = m.tag in shown
            if ctx.symbolic:
                cnt = z.Sum([z.If(symx._b(v), 1, 0) for v in later]) if later else z.IntVal(0)
                if cap is None:
                    capok = z.BoolVal(True)
                elif isinstance(cap, int):
                    capok = z.BoolVal(True) if cap == 0 else (cnt < cap)
                else:
                    capok = z.Or(cap.e == 0, cnt < cap.e)
                exp = z.And(symx._b(vs[i]), capok)
                ctx.check('message %d shown iff it matches and is among the last N matches' % m.tag, exp if real else z.Not(exp))
            else:
                cnt = sum(1 for v in later if v)
                capok = cap is None or cap == 0 or cnt < cap
                ctx.check('message %d shown iff it matches and is among the last N matches' % m.tag, real == (bool(vs[i]) and capok))
        # counts
        tail = [x for x in first[1:] if not x.startswith(ctl.MSG_PREFIX) and '───┤' not in x]
        if shown:
            mm = COUNT_RE.match(tail[-1]) if tail else None
            ctx.check('count line present', mm is not None and len(tail) == 1)
            if mm:
                a, b, c = int(mm.group(1)), int(mm.group(2)), int(mm.group(3) or 0)
                ctx.check('matched count = number of lines shown', a == len(shown))
                ctx.check('matched + did not match + not checked = number recorded in scope', a + b + c == len(scope))
        else:
            ctx.check('nothing shown -> one summary line', len(tail) == 1)
            if tail and scope:
                mm = re.search(r'None of the (\d+) messages', tail[0])
                ctx.check('summary counts every recorded message of the scope as not matching', mm is not None and int(mm.group(1)) == len(scope))
        if via == 'show' and len(assign) >= 2:
            # the same query again right after switching the selection (no new message in between) answers for the NEW scope
            sel2 = ctx.choose([x for x in (None, 0, 1) if x != sel], 'switch_to')
            w.ctl.connection_command('all' if sel2 is None else w.conns[sel2].name())
            k0 = len(w.out.items)
            w.ctl.show_messages(w.ctl.current_connection, L, cap)
            shown2 = ctl.msg_lines(w.out.items[k0:])
            scope2 = [m for (m, ci) in w.msgs if sel2 is None or ci == sel2]
            vs2 = [_verdict(L, m) for m in scope2]
            for i, m in enumerate(scope2):
                later = vs2[i + 1:]
                real = m.tag in shown2
                if ctx.symbolic:
                    cnt = z.Sum([z.If(symx._b(v), 1, 0) for v in later]) if later else z.IntVal(0)
                    capok = z.BoolVal(True) if cap is None else (z.BoolVal(True) if isinstance(cap, int) and cap == 0 else (cnt < cap if isinstance(cap, int) else z.Or(cap.e == 0, cnt < cap.e)))
                    exp = z.And(symx._b(vs2[i]), capok)
                    ctx.check('after switching the selection: message %d shown iff it matches within the new scope' % m.tag, exp if real else z.Not(exp))
                else:
                    cnt = sum(1 for v in later if v)
                    capok = cap is None or cap == 0 or cnt < cap
                    ctx.check('after switching the selection: message %d shown iff it matches within the new scope' % m.tag, real == (bool(vs2[i]) and capok))
            ctx.check('after switching the selection: nothing outside the new scope is shown', all(t in [m.tag for m in scope2] for t in shown2))
            w.ctl.connection_command('all' if sel is None else w.conns[sel].name())
        after = (w.ctl.display_matcher, w.ctl.stop_matcher, w.ctl.current_connection, list(w.ctl.all_messages),
                 [c.messages() for c in w.conns], w.ctl.last_shown_timestamp)
        ctx.check('filter untouched', after[0] is before[0])
        ctx.check('breakpoint untouched', after[1] is before[1])
        ctx.check('selection untouched', after[2] is before[2])
        ctx.check('records untouched', after[3] == before[3] and after[4] == before[4])
        if via != 'show':
            ctx.check('the matcher text (without the ~ N part) is what gets parsed', texts == ([] if used is F else [form.split('~')[0]] * 2) or
                      [t.strip() for t in texts] == [form.split('~')[0].strip()] * 2)
    finally:
        ctl.restore_show()


def twin(ctx, case):
    listing(ctx, case)
    ctx.check('reachability twin (must be violated)', False)


def bad_cap(ctx, case):
    """`~ text` is an error line and lists nothing"""
    from core import matcher
    w = ctl.make_world(ctx, 1)
    try:
        ctl.add_message(w, 0)
        n0 = len(w.out.items)
        form = ctx.choose(['x ~ y', '~ ', 'x ~ 1.5'], 'text')
        before = (w.ctl.display_matcher, w.ctl.stop_matcher, w.ctl.current_connection, list(w.ctl.all_messages))
        w.ctl.list_command(form)
        ctx.check('error reported', len(w.err.items) == 1 and 'Expected number' in w.err.items[0])
        ctx.check('nothing listed', w.out.items[n0:] == [])
        ctx.check('state untouched', before[0] is w.ctl.display_matcher and before[1] is w.ctl.stop_matcher and before[3] == w.ctl.all_messages)
    finally:
        ctl.restore_show()


def long_history(ctx, case):
    """sessions of hundreds to thousands of recorded messages (what GDB mode and long logs produce): `list M ~ N` shows exactly the last N matches,
    oldest first, and the counts add up - whatever way the history is walked (blocks, slices, copies)"""
    length, period = case
    from core import matcher
    w = ctl.make_world(ctx, 2)
    try:
        sel = ctx.choose([None, 0], 'selection')
        for i in range(length):
            ctl.add_message(w, 0 if i % 5 else 1, name='m%d' % (i % period))
        if sel is not None:
            w.ctl.process_command('connection A')
        cap = ctx.choose([None, 1, 2, 7], 'cap')
        which = ctx.choose([0, period - 1], 'which_name')
        n0 = len(w.out.items)
        w.ctl.process_command('list .m%d' % which + (' ~ %d' % cap if cap is not None else ''))
        items = w.out.items[n0:]
        shown = ctl.msg_lines(items)
        scope = [m for m, ci in w.msgs if sel is None or ci == sel]
        matching = [m.tag for m in scope if m.name == 'm%d' % which]
        want = matching if cap is None else matching[-cap:]
        ctx.check('the lines shown are exactly the last N matching messages of the scope, oldest first (N = all without a cap)', shown == want)
        cm = [COUNT_RE.match(x.strip()) for x in items]
        cm = [m for m in cm if m]
        if want:
            ctx.check('one summary line whose counts add up to the number of recorded messages in scope', len(cm) == 1 and int(cm[0].group(1)) == len(shown)
                      and int(cm[0].group(1)) + int(cm[0].group(2)) + int(cm[0].group(3) or 0) == len(scope))
        else:
            mm = [re.search(r'None of the (\d+) messages', x) for x in items]
            ctx.check('nothing matches: one summary line counting every recorded message of the scope', [int(m.group(1)) for m in mm if m] == [len(scope)])
    finally:
        ctl.restore_show()


def obligations(tier):
    import itertools
    n = 5 if tier == 'quick' else 6
    cases = []
    for k in range(0, n + 1):
        for assign in itertools.product((0, 1), repeat=k):
            if k >= 2 and assign[0] == 1:
                continue   # symmetric under renaming the connections
            for sel in (None, 0, 1):
                if tier == 'quick' and k == n and sel == 1:
                    continue
                cases.append(('show', assign, sel))
    # histories recorded while a connection was selected, listed afterwards under another selection
    for assign in [(0, 1), (1, 0, 1), (0, 1, 1, 0)]:
        for rec_sel in (0, 1):
            for sel in (None, 0, 1):
                cases.append(('show', assign, sel, rec_sel))
    list_cases = [('list', a, s) for a in [(), (0, 1, 0), (0, 0, 1, 1), (0, 0, 0, 0, 0)] for s in (None, 0)] + [('list', (0, 1, 0), None, 1)]
    bounds = '<= %d recorded messages on 2 connections (all assignments up to renaming), selection none/A/B, verdict vector symbolic, cap absent or any integer in [0, %d)' % (n, n + 3)
    return [
        Ob('show-messages', 'symx', 'show_messages/_get_matching: shown set, order, cap, counts, idempotence, no state change', FUNCS, bounds, listing, cases=cases,
           stubs=['matcher = abstract leaf with symbolic verdicts', 'Message.show stubbed'], outside='N < 0; more than %d messages' % n),
        Ob('list-command', 'symx', 'list_command: `~ N` splitting, matcher text handed to the parser, default = current filter', FUNCS, 'texts: "", X, X ~ 0/1/2/3/9, ~ 1, ~2; 3 histories', listing,
           cases=list_cases, stubs=['matcher.parse stubbed to return the abstract leaf (parsing is C05)']),
        Ob('long-histories', 'symx', '`list M ~ N` over histories of 513 .. 2 100 messages (matches every 1st / 3rd / 300th message): exactly the last N matches, counts add up', FUNCS,
           'lengths 513, 700, 1025%s x periods 1, 3, 300 x caps none/1/2/7 x 2 selections' % ('' if tier == 'quick' else ', 2100'), long_history,
           cases=[(L, p) for L in ((513, 700, 1025) if tier == 'quick' else (513, 700, 1025, 2100)) for p in (1, 3, 300)], stubs=['Message.show stubbed']),
        Ob('list-bad-cap', 'symx', 'a non-numeric cap is reported and nothing is listed', FUNCS[:1], '3 texts', bad_cap, cases=[None]),
        Ob('show-messages-reachable', 'symx', 'reachability twin', FUNCS, bounds, twin, cases=[('show', (0, 1, 0), None)], expect_cex=True),
    ]
