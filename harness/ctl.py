"""shared world builder for the controller properties (C06, C10, C11, C12, C14, C16)

Real ConnectionManager + real ConnectionImpl + real Controller; messages are real wl.Message objects
routed through the public sink interface.  Matchers are abstract leaves whose verdict per message is
a solver-chosen boolean (SymLeaf)."""
import logging
from lib import symx
from lib.stubs import RecStream

MSG_PREFIX = '\x02MSG:'


class SymLeaf:
    """abstract matcher leaf: matches(m) is a symbolic boolean fixed per message"""

    def __init__(self, ctx, name, always=None, label=None):
        self.ctx = ctx
        self.name = name
        self.label = label          # what the leaf PRINTS as (distinct leaves may print alike, as real matchers can)
        self._always = always
        self.v = {}
        self.calls = []

    def verdict(self, m):
        k = id(m)
        if k not in self.v:
            self.v[k] = (m, self.ctx.fresh_bool('%s_m%d' % (self.name, len(self.v))))
        return self.v[k][1]

    def matches(self, m):
        self.calls.append(m)
        if self._always is not None:
            return self._always
        return self.verdict(m)

    def simplify(self):
        return self

    def always(self):
        return self._always

    def __str__(self):
        return self.label if self.label is not None else '<' + self.name + '>'

    def __repr__(self):
        return '<' + self.name + '>'


def install_show_stub():
    """message lines are recorded as MSG:<tag>; their text is the subject of C16/C17"""
    from core import wl
    if not hasattr(wl.Message, '_verif_show'):
        wl.Message._verif_show = wl.Message.show

    def show(self, out):
        out.show(MSG_PREFIX + str(getattr(self, 'tag', '?')))
    wl.Message.show = show


def restore_show():
    from core import wl
    if hasattr(wl.Message, '_verif_show'):
        wl.Message.show = wl.Message._verif_show


class World:
    pass


def make_world(ctx, nconn, display=None, stop=None, show_stub=True):
    from core import wl
    from core.connection_manager import ConnectionManager
    from core.output import Output
    from frontends.tui.controller import Controller
    from core import matcher
    from core.wl import protocol
    logging.disable(logging.CRITICAL)
    protocol.interfaces.clear()
    wl.Message.base_time = 0.0
    if show_stub:
        install_show_stub()
    w = World()
    w.out, w.err = RecStream(), RecStream()
    w.output = Output(False, True, w.out, w.err)
    w.manager = ConnectionManager()
    w.display = display if display is not None else matcher.always
    w.stop = stop if stop is not None else matcher.never
    w.ctl = Controller(w.output, w.manager, w.display, w.stop)
    w.conns = []
    for i in range(nconn):
        w.conns.append(w.manager.open_connection(0.0, 'conn%d' % i, None))
    w.msgs = []
    return w


def add_message(w, ci, t=None, name='sync', sent=True, args=(), target_id=1):
    """target_id other than 1 names an object that was never created: the message stays on an unresolved object"""
    from core import wl
    n = len(w.msgs)
    # default clock: NOT monotone (logs of several processes, wrap-around): order of arrival is what counts, gaps stay below one second
    m = wl.Message(((n * 7) % 5) * 0.25 if t is None else t, wl.UnresolvedObject(target_id, 'wl_display' if target_id == 1 else None), sent, name, args)
    m.tag = n
    w.msgs.append((m, ci))
    w.manager.message('conn%d' % ci, m)
    return m


def msg_lines(items):
    return [int(x[len(MSG_PREFIX):]) for x in items if x.startswith(MSG_PREFIX)]
