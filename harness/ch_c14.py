"""CrossHair obligations for C14 (letter labels).  Each function is a PEP-316 contract over calls of the
real functions; `python3-vt -m crosshair check` searches for a counterexample / confirms all paths."""
from core.letter_id_generator import number_to_letter_id, letter_id_to_number, LetterIdGenerator

LIMIT4 = 26 + 26 ** 2 + 26 ** 3 + 26 ** 4   # everything up to four letters


def round_trip(n: int, caps: bool) -> bool:
    """
    pre: 0 <= n < 475254
    post: _
    """
    return letter_id_to_number(number_to_letter_id(n, caps)) == n


def injective(a: int, b: int, caps: bool) -> bool:
    """
    pre: 0 <= a < b < 475254
    post: _
    """
    return number_to_letter_id(a, caps) != number_to_letter_id(b, caps)


def shape(n: int, caps: bool) -> bool:
    """
    pre: 0 <= n < 475254
    post: _
    """
    s = number_to_letter_id(n, caps)
    lo, hi = ('A', 'Z') if caps else ('a', 'z')
    if len(s) < 1 or len(s) > 4:
        return False
    for c in s:
        if not (lo <= c <= hi):
            return False
    # shortlex position: length-1 strings are 0..25, length-2 26..701, ...
    first = 0
    for k in range(1, len(s)):
        first += 26 ** k
    return first <= n < first + 26 ** len(s)


def successor(n: int) -> bool:
    """
    pre: 0 <= n < 475253
    post: _
    """
    a = number_to_letter_id(n, False)
    b = number_to_letter_id(n + 1, False)
    # b is the shortlex successor of a: same length and lexicographically next, or one longer and all 'a' after all 'z'
    if len(a) == len(b):
        return a < b and letter_id_to_number(b) - letter_id_to_number(a) == 1
    return len(b) == len(a) + 1 and a == 'z' * len(a) and b == 'a' * len(b)


def twin_round_trip(n: int, caps: bool) -> bool:
    """
    pre: 0 <= n < 475254
    post: _
    """
    letter_id_to_number(number_to_letter_id(n, caps))
    return False


def round_trip_lower(n: int) -> bool:
    """
    pre: 0 <= n < 475254
    post: _
    """
    return letter_id_to_number(number_to_letter_id(n, False)) == n


def round_trip_caps(n: int) -> bool:
    """
    pre: 0 <= n < 475254
    post: _
    """
    return letter_id_to_number(number_to_letter_id(n, True)) == n


def caps_relation(n: int) -> bool:
    """
    pre: 0 <= n < 475254
    post: _
    """
    a = number_to_letter_id(n, False)
    b = number_to_letter_id(n, True)
    if len(a) != len(b):
        return False
    for i in range(len(a)):
        if ord(a[i]) - ord('a') != ord(b[i]) - ord('A'):
            return False
    return True


def _pair_api():
    """is the parsed id matcher still applied to (id, incarnation) pairs? If that internal interface is gone this contract cannot follow the code; what a
    label selects is then decided through the public parser on whole messages by `label-as-matcher` alone"""
    try:
        from core import matcher
        matcher._parse_obj_id_matcher('1a').matches((1, 0))
        return True
    except (AttributeError, TypeError):
        return False


_PAIR_API = _pair_api()


def label_parses_back(obj_id: int, gen: int, other_id: int, other_gen: int) -> bool:
    """
    pre: 1 <= obj_id < 100000 and 0 <= gen < 702
    pre: 0 <= other_id < 1000000 and 0 <= other_gen < 1000000
    post: _
    """
    from core import matcher
    text = str(obj_id) + number_to_letter_id(gen, False)
    m = matcher._parse_obj_id_matcher(text)
    if not _PAIR_API:
        return True
    if not m.matches((obj_id, gen)):
        return False
    if (other_id, other_gen) != (obj_id, gen) and m.matches((other_id, other_gen)):
        return False
    return True


def generator_sequence(k: int) -> bool:
    """
    pre: 0 <= k < 40
    post: _
    """
    from core.letter_id_generator import LetterIdGenerator
    g = LetterIdGenerator()
    last = None
    for i in range(k + 1):
        last = g.next()
    return last == number_to_letter_id(k, True)


def generator_positions(k: int) -> bool:
    """
    pre: 0 <= k < 20000
    post: _
    """
    # the k-th and (k+1)-th connection names handed out by the generator are the names of positions k and k+1: no gaps, no repeats
    g = LetterIdGenerator()
    g.index = k
    a = g.next()
    b = g.next()
    # (label(k) != label(k+1) and the way back are the obligations injective / round-trip)
    return a == number_to_letter_id(k, True) and b == number_to_letter_id(k + 1, True)
