"""CrossHair obligations for C17: colour wrapping and stripping on symbolic text"""
from core import util

CODES = sorted({v for k, v in vars(util).items() if k.endswith('_color') and isinstance(v, str)} | {'1;37', '1;31', '1;32', '1;36'})
ESC = chr(27)


def strip_inverts_wrap(k: int, t: str) -> bool:
    """
    pre: 0 <= k < len(CODES) and len(t) <= 3 and ESC not in t
    post: _
    """
    util.color_output = True
    try:
        c = CODES[0]
        for j in range(len(CODES)):
            if k == j:
                c = CODES[j]
        return util.no_color(util.color(c, t)) == t
    finally:
        util.color_output = False


def strip_inverts_reset_wrap(t: str) -> bool:
    """
    pre: len(t) <= 3 and ESC not in t
    post: _
    """
    util.color_output = True
    try:
        return util.no_color(util.color(None, t)) == t
    finally:
        util.color_output = False


def off_is_identity(k: int, t: str) -> bool:
    """
    pre: 0 <= k < len(CODES) and len(t) <= 4
    post: _
    """
    util.color_output = False
    c = CODES[0]
    for j in range(len(CODES)):
        if k == j:
            c = CODES[j]
    return util.color(c, t) == t and util.color(None, t) == t


def strip_leaves_plain_text(t: str) -> bool:
    """
    pre: len(t) <= 4 and ESC not in t
    post: _
    """
    return util.no_color(t) == t


def twin_strip(k: int, t: str) -> bool:
    """
    pre: 0 <= k < len(CODES) and len(t) <= 3 and ESC not in t
    post: _
    """
    util.color_output = True
    try:
        util.no_color(util.color(CODES[0], t))
    finally:
        util.color_output = False
    return False
