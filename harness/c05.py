"""C05 -- a matcher selects exactly the messages its documented meaning says"""
import itertools
from lib.runner import Ob
from lib import symx
from harness import ctl

LEVEL = 'model_checking'
MANIFEST = {'category': 'model_checking', 'engine': 'symx+z3',
 'technique': 'symbolic execution of the real matcher classes: (L1) combinators and simplify() over abstract leaves with solver-chosen verdicts and always() annotations; (L3) matchers built by the real parser from expression texts rendered out of a grammar AST, evaluated on messages with symbolic ids / incarnations / integer, fixed and fd values and chosen structure, compared with a three-valued reference denotation; whitespace / bracket variants',
 'text': 'L1: for <= 3 positive and <= 2 negative leaves (every always() annotation, every verdict) and argument tuples of length <= 2, MatcherList / ArgsMatcherList / MessagePattern / PairMatcher evaluate as documented and simplify() does not change the verdict. L3: for each generated expression (all atom kinds, comma/! lists, bracketed components, connection prefix, .new/.destroyed, bare objects, *, !) the parsed and simplified matcher is run on every message structure relevant to the expression (connection none/A/B, target type/id/incarnation, name, <= 1 (quick) / 2 (thorough) arguments of the kinds the expression can distinguish plus others, destroyed object) with symbolic scalars; z3 proves the verdict equals the denotation wherever the documentation decides it. Variants with added whitespace and redundant brackets parse to the same simplified matcher. For every third expression also after an earlier session that joined an exclusion of the expression\'s own first alternative (parsed matchers share no state).',
 'note': 'Expression TEXTS are enumerated from the grammar (symbolic text through the hand-written splitter degenerates to enumeration); message scalars are fully symbolic. Don\'t-cares (documentation silent) are listed in spec/matcher_ref.py and DESIGN.md. Trusted: z3, lib/symx.py, spec/matcher_ref.py.'}
EXPLANATION = MANIFEST['text']
ASSUMPTIONS = ['reference denotation in spec/matcher_ref.py (written from matchers.md and the property text)', 'fixed-point argument values are k/256 (24.8)']
FUNCS = ['core.matcher:parse', 'core.matcher:_parse_matcher_list', 'core.matcher:_parse_message_pattern', 'core.matcher:_parse_obj_matcher', 'core.matcher:_parse_args_list',
         'core.matcher:_parse_arg_matcher', 'core.matcher:_parse_arg_value_matcher', 'core.matcher:_split_on', 'core.matcher:MessagePattern.matches', 'core.matcher:MessagePattern.simplify',
         'core.matcher:MatcherList.matches', 'core.matcher:MatcherList.simplify', 'core.matcher:ArgsMatcherList.matches', 'core.matcher:ArgsMatcherList.simplify',
         'core.matcher:IntArgValueMatcher.matches', 'core.matcher:FloatArgValueMatcher.matches', 'core.matcher:StringArgValueMatcher.matches', 'core.matcher:LabelIntArgValueMatcher.matches',
         'core.matcher:ObjectArgValueMatcher.matches', 'core.matcher:ArgMatcher.matches', 'core.matcher:ObjectIdMatcher.matches', 'core.matcher:ObjectNameMatcher.matches',
         'core.matcher:ConnectionMatcher.matches', 'core.matcher:WildcardMatcher.matches', 'core.matcher:str_matcher', 'core.matcher:PairMatcher.simplify', 'core.matcher:WrapMatcher.simplify']


class _Conn:
    def __init__(self, n): self._n = n
    def name(self): return self._n


# ------------------------------------------------------------------------------------------ L1
def _leaf(ctx, name):
    alw = ctx.choose([None, True, False], name + '_always')
    return ctl.SymLeaf(ctx, name, always=alw)


def _v(leaf, x):
    return leaf._always if leaf._always is not None else leaf.verdict(x)


def comb_list(ctx, case):
    from core import matcher
    from spec.matcher_ref import b_and, b_or, b_not
    npos, nneg = case
    P = [_leaf(ctx, 'p%d' % i) for i in range(npos)]
    N = [_leaf(ctx, 'n%d' % i) for i in range(nneg)]
    m = object()
    want = b_and(b_or(*[_v(p, m) for p in P]), b_not(b_or(*[_v(n, m) for n in N])))
    ml = matcher.MatcherList(list(P), list(N))
    got = bool(ml.matches(m))
    _chk(ctx, 'MatcherList.matches = some positive and no negative', got, want)
    s = ml.simplify()
    got2 = bool(s.matches(m))
    _chk(ctx, 'simplify() does not change the verdict', got2, want)
    a = s.always()
    if a is not None:
        _chk(ctx, 'a matcher that calls itself constant is that constant', a, want)


def comb_args(ctx, case):
    from core import matcher
    from spec.matcher_ref import b_and, b_or, b_not
    npos, nneg, nargs = case
    P = [_leaf(ctx, 'p%d' % i) for i in range(npos)]
    N = [_leaf(ctx, 'n%d' % i) for i in range(nneg)]
    args = tuple(object() for _ in range(nargs))
    want = b_and(*([b_or(*[_v(p, a) for a in args]) for p in P] + [b_not(b_or(*[_v(n, a) for a in args])) for n in N]))
    al = matcher.ArgsMatcherList(list(P), list(N))
    got = bool(al.matches(args))
    _chk(ctx, 'ArgsMatcherList.matches = every positive item satisfied by some argument, no negative by any', got, want)
    if nargs == 0 and any(p._always is True for p in P):
        return       # `(*)` / `(=)` on a message without arguments: undocumented, don't-care
    if nargs == 0 and any(n._always is True for n in N):
        return       # `(! *)` on a message without arguments: undocumented, don't-care
    s = al.simplify()
    got2 = bool(s.matches(args))
    _chk(ctx, 'simplify() does not change the verdict', got2, want)


def comb_pattern(ctx, case):
    from core import matcher, wl
    from spec.matcher_ref import b_and, b_or, b_not
    is_new, is_des = case
    conn, obj, name, args = _leaf(ctx, 'conn'), _leaf(ctx, 'obj'), _leaf(ctx, 'name'), _leaf(ctx, 'args')
    mp = matcher.MessagePattern(conn, obj, name, args)
    MO = wl.object.MockObject
    tgt, newobj, desobj, other = MO(), MO(), MO(), MO()
    a = (wl.Arg.Object(newobj, True), wl.Arg.Object(other, False)) if is_new else (wl.Arg.Int(1),)
    msg = wl.message.MockMessage(obj=tgt, name='foo', args=a, destroyed_obj=desobj if is_des else None)
    mn = b_and(_v(name, 'new'), _v(args, ()))
    md = b_and(_v(name, 'destroyed'), _v(args, ()))
    want = b_and(_v(conn, None), b_or(b_and(mn, is_new, _v(obj, newobj)), b_and(md, is_des, _v(obj, desobj)),
                                      b_and(_v(obj, tgt), _v(name, 'foo'), _v(args, a))))
    got = bool(mp.matches(msg))
    _chk(ctx, 'MessagePattern.matches = connection and (creates / destroys / is on the object with name and arguments)', got, want)
    s = mp.simplify()
    got2 = bool(s.matches(msg))
    _chk(ctx, 'simplify() does not change the verdict', got2, want)


def comb_pair(ctx, case):
    from core import matcher
    from spec.matcher_ref import b_and
    a, b = _leaf(ctx, 'a'), _leaf(ctx, 'b')
    x, y = object(), object()
    want = b_and(_v(a, x), _v(b, y))
    pm = matcher.PairMatcher(a, '=', b)
    _chk(ctx, 'PairMatcher.matches = both halves', bool(pm.matches((x, y))), want)
    s = pm.simplify()
    _chk(ctx, 'simplify() does not change the verdict (a constant half does not make the pair constant unless both agree)', bool(s.matches((x, y))), want)
    al = s.always()
    if al is not None:
        _chk(ctx, 'a pair that calls itself constant is that constant', al, want)

    class W(matcher.WrapMatcher):
        def matches(self, v):
            return self.wrapped.matches(v)
    w = W(_leaf(ctx, 'w'))
    want2 = _v(w.wrapped, x)
    s2 = w.simplify()
    _chk(ctx, 'WrapMatcher.simplify() does not change the verdict', bool(s2.matches(x)), want2)
    # ArgMatcher = name pair value on one argument
    from core import wl
    n, v = _leaf(ctx, 'n'), _leaf(ctx, 'v')
    arg = wl.Arg.Int(1)
    arg.name = 'x'
    am = matcher.ArgMatcher(n, v)
    want3 = b_and(_v(n, 'x'), _v(v, arg))
    n.verdict('x'); v.verdict(arg)
    got3 = bool(am.simplify().matches(arg))
    _chk(ctx, 'ArgMatcher (name=value) after simplify()', got3, want3)


def _chk(ctx, label, got, want):
    from spec.matcher_ref import b_not
    if isinstance(want, bool):
        ctx.check(label, got == want)
    else:
        ctx.check(label, want if got else b_not(want))


# ------------------------------------------------------------------------------------------ L3
TYPES = ['wl_pointer', 'wl_touch', 'xdg_popup']
NAMES = ['motion', 'set_title', 'new', 'destroyed', 'commit']


def gen_expressions(tier):
    """deterministic enumeration of expression ASTs (all atom kinds at every level)"""
    OBJS = [None, ('type', 'wl_pointer'), ('type', 'xdg_*'), ('type', 'wl_*_touch'), ('type', '*_popup'), ('id', 7), ('idgen', 7, 2), ('idgen', 12, 27),
            ('list', [('type', 'wl_pointer'), ('type', 'wl_touch')], [('id', 7)]), ('list', [('id', 7), ('id', 9)], []), ('list', [], [('type', 'wl_*')]),
            ('list', [('type', 'wl_pointer'), ('list', [('type', 'wl_touch')], [('id', 7)])], []), ('list', [('list', [('type', 'wl_*')], [('type', 'wl_touch')]), ('id', 9)], [('idgen', 7, 2)])]
    NMS = [None, 'motion', 'set_*', 'set_*_title', '*tion', 'new', 'destroyed', ('list', ['motion', 'commit'], []), ('list', ['*'], ['motion'])]
    VALS = [None, ('int', 0), ('int', 7), ('int', -3), ('float', 1.5), ('float', 7.0), ('str', 'hi there'), ('str', ''), ('label', 'pressed'), ('label', 'wl_pointer'), ('label', 'wl_*'), ('nil',)]
    ITEMS = [(n, v) for n in (None, 'x', 's*') for v in VALS if not (n is None and v is None)]
    ITEMS += [('list', [(None, ('int', 5)), ('list', [(None, ('label', 'pressed'))], [('x', None)])], []), ('list', [(None, ('int', 5)), (None, ('nil',))], []), ('list', [('x', ('int', 0)), ('y', ('int', 0))], []), ('list', [(None, ('label', 'pressed'))], [('x', None)])]
    ARGS = [None] + [([i], []) for i in ITEMS]
    ARGS += [([ITEMS[i], ITEMS[(i * 7 + 3) % len(ITEMS)]], []) for i in range(0, len(ITEMS), 3)]
    ARGS += [([ITEMS[i]], [ITEMS[(i * 5 + 1) % len(ITEMS)]]) for i in range(0, len(ITEMS), 4)]
    pats = [('star',), ('bang',)]
    k = 0
    for c in (None, 'B', 'A*'):
        for o in OBJS:
            if o is not None:
                pats.append(('bare', c, o))
            for n in NMS:
                for ai, ar in enumerate(ARGS):
                    if n is None and ar is None:
                        continue
                    if n is None and not ar[0]:
                        continue
                    k += 1
                    # thin out the product deterministically: all args with the first object/name, a stride elsewhere
                    full = (o == OBJS[1] and n == 'motion' and c is None) or (o is None and n is None and c is None)
                    if not full and (k % 11) != 0:
                        continue
                    pats.append(('msg', c, o, n, ar))
    exprs = [([p], []) for p in pats]
    for i in range(0, len(pats), 5):
        exprs.append(([pats[i], pats[(i * 3 + 7) % len(pats)]], []))
    for i in range(0, len(pats), 7):
        exprs.append(([pats[i]], [pats[(i * 5 + 11) % len(pats)]]))
    for i in range(0, len(pats), 23):
        exprs.append(([], [pats[i]]))
    if tier == 'quick':
        exprs = exprs[::6]
    else:
        exprs = exprs[3::6]     # another sixth of the family than the quick tier, with <= 2 arguments per message (the full product is many hours of CPU)
    # argument lists made of exclusions only - `(! 5)`, `.motion(! x=0)`, `wl_pointer(! nil, [5, 7])`: nothing is demanded, so a message without
    # arguments is selected too (in both tiers, not thinned)
    excl = [(None, ('int', 5)), ('x', ('int', 0)), (None, ('nil',)), ('x', None), (None, ('label', 'pressed')), ('list', [(None, ('int', 5)), (None, ('nil',))], [])]
    for i, it in enumerate(excl):
        o, n = [(('type', 'wl_pointer'), 'motion'), (None, 'motion'), (('type', 'wl_pointer'), None)][i % 3]
        exprs.append(([('msg', None, o, n, ([], [it]))], []))
    exprs.append(([('msg', None, ('idgen', 7, 2), '*', ([], [excl[0], excl[2]]))], []))
    exprs.append(([('star',)], [('msg', None, None, 'motion', ([], [excl[1]]))]))
    # alternatives that READ alike and mean different things - the number 7 and the text "7", the label pressed and the text "pressed" - in one
    # bracket list, as two patterns, and as exclusions: each alternative counts (in both tiers, not thinned)
    look = [((None, ('int', 7)), (None, ('str', '7'))), ((None, ('label', 'pressed')), (None, ('str', 'pressed'))), (('x', ('int', 0)), ('x', ('str', '0')))]
    for a, b in look:
        for first, second in ((a, b), (b, a)):
            exprs.append(([('msg', None, None, 'motion', ([('list', [first, second], [])], []))], []))
            exprs.append(([('msg', None, None, 'motion', ([first], [])), ('msg', None, None, 'motion', ([second], []))], []))
            exprs.append(([('star',)], [('msg', None, None, 'motion', ([first], [])), ('msg', None, None, 'motion', ([second], []))]))
    return exprs


def _build_message(ctx, e, max_args):
    """a message whose STRUCTURE is chosen among the alternatives the expression can distinguish (plus others) and
    whose scalars are symbolic"""
    from core import wl
    from spec import matcher_ref as R
    men = R.mentioned(e)
    MO = wl.object.MockObject
    conns = [None, _Conn('A'), _Conn('B')] if men['conns'] else [_Conn('A')]
    conn = ctx.choose(conns, 'conn')
    def pick_types():
        ts = []
        for t in TYPES:
            if any(R.glob(p, t) for p in men['types'] | men['labels']):
                ts.append(t)
                break
        for t in TYPES:
            if not any(R.glob(p, t) for p in men['types'] | men['labels']):
                ts.append(t)
                break
        return ts or TYPES[:1]
    tpool = pick_types()
    if any('*' in p[:-1] for p in men['types'] | men['labels']):
        tpool = list(TYPES)
    counter = [0]

    def obj(tag, allow_none_type=False, allow_unresolved=False):
        counter[0] += 1
        t = ctx.choose(tpool + ([None] if allow_none_type else []), tag + '_type')
        i = ctx.fresh_int(tag + '_id', 1, 2 ** 32)
        g = ctx.fresh_int(tag + '_gen', 0, 2 ** 16)
        return MO(conn, 0.0, i, g, t)
    tgt = obj('tgt', allow_none_type=True)
    npool = []
    for n in NAMES:
        if any(R.glob(p, n) for p in men['names']):
            npool.append(n)
            break
    for n in NAMES:
        if not any(R.glob(p, n) for p in men['names']) and n not in ('new', 'destroyed'):
            npool.append(n)
            break
    if any('*' in p[:-1] for p in men['names']):
        npool = [n for n in NAMES if n not in ('new', 'destroyed')]
    name = ctx.choose(npool or NAMES[:1], 'name')
    kinds = set()
    for k in men['kinds']:
        kinds |= {'int': {'int', 'fixed'}, 'float': {'fixed', 'int'}, 'str': {'str'}, 'label': {'int_labelled', 'obj', 'nil'}, 'nil': {'nil', 'obj'}}[k]
    has_bare = any(p[0] == 'bare' for p in e[0] + e[1])
    has_new = any(p[0] == 'msg' and p[3] is not None and p[4] is None and R.d_name(p[3], 'new') for p in e[0] + e[1])
    if has_bare or has_new:
        kinds |= {'obj', 'new'}
    if men['argnames'] and not kinds:
        kinds |= {'int'}
    kinds = sorted(kinds) + ['other']
    nargs = ctx.choose(list(range(max_args + 1)), 'nargs')
    anames = sorted(men['argnames'])
    args = []
    for k in range(nargs):
        kind = ctx.choose(kinds, 'kind%d' % k)
        if kind == 'int':
            a = wl.Arg.Int(ctx.fresh_int('a%d_val' % k, -2 ** 31, 2 ** 32))
        elif kind == 'int_labelled':
            a = wl.Arg.Int(ctx.fresh_int('a%d_val' % k, 0, 2 ** 32))
            a.labels = ctx.choose([['pressed'], ['released', 'pressed'], ['(none)']], 'labels%d' % k)
        elif kind == 'fixed':
            kk = ctx.fresh_int('a%d_fix' % k, -2 ** 31, 2 ** 31)
            a = wl.Arg.Float(symx.SFix(kk) if ctx.symbolic else kk / 256.0)
        elif kind == 'str':
            a = wl.Arg.String(ctx.choose(sorted(men['strs']) + ['something else'], 'str%d' % k))
        elif kind == 'nil':
            a = wl.Arg.Null(ctx.choose(tpool + [None], 'niltype%d' % k))
        elif kind == 'obj':
            a = wl.Arg.Object(obj('a%d' % k, allow_none_type=True), False)
        elif kind == 'new':
            a = wl.Arg.Object(obj('a%d' % k), True)
        else:
            a = ctx.choose([wl.Arg.Array(), wl.Arg.Unknown('x'), wl.Arg.String('other text')], 'other%d' % k)
        # label of the argument: a name the expression mentions, another one (never absent when the expression uses name=)
        pool = []
        for cand in ['x', 'y', 'serial', 'states']:
            if any(R.glob(p, cand) for p in anames) and not any(x for x in pool if any(R.glob(p, x) for p in anames)):
                pool.append(cand)
        for cand in ['x', 'y', 'serial', 'states']:
            if not any(R.glob(p, cand) for p in anames):
                pool.append(cand)
                break
        if not anames:
            pool = pool[:1] + [None]
        a.name = ctx.choose(pool, 'argname%d' % k)
        args.append(a)
    destroyed = None
    has_des = has_bare or any(p[0] == 'msg' and p[3] is not None and p[4] is None and R.d_name(p[3], 'destroyed') for p in e[0] + e[1])
    if has_des and ctx.choose([False, True], 'destroys'):
        destroyed = obj('dead')
    return wl.message.MockMessage(0.0, tgt, ctx.choose([True, False], 'sent') if False else True, name, tuple(args), destroyed)


def _warmup_messages(msg):
    """concrete messages a matcher may have been asked about earlier in a session: every type of the pool as target, object argument and nil type,
    labelled and plain integers, strings, on the message's own connection and on another one"""
    from core import wl
    MO = wl.object.MockObject
    out = []
    for k, t in enumerate(TYPES[:4]):
        conn = msg.obj.connection if k % 2 == 0 else _Conn('Q')
        a_int = wl.Arg.Int(k)
        a_int.labels = ['pressed'] if k % 2 else []
        args = [wl.Arg.Null(t), wl.Arg.Object(MO(conn, 0.0, 40 + k, k, t), k % 2 == 1), a_int, wl.Arg.String('warm %d' % k), wl.Arg.Float(k + 0.5)]
        for j, a in enumerate(args):
            a.name = ['x', 'y', 'serial', 'states', None][(j + k) % 5]
        out.append(wl.message.MockMessage(0.0, MO(conn, 0.0, 30 + k, 0, t), True, NAMES[k % len(NAMES)], tuple(args), MO(conn, 0.0, 50, 1, t) if k == 3 else None))
    return out


def expression(ctx, case):
    import logging
    logging.disable(logging.CRITICAL)
    from core import matcher
    from spec import matcher_ref as R
    idx, max_args, tier = case
    e = gen_expressions(tier)[idx]
    text = R.r_expr(e)
    saved = {k: matcher.__dict__.get(k) for k in ('int', 'float')}
    matcher.int, matcher.float = symx.sym_int, symx.sym_float
    try:
        if e[0] and idx % 3 == 0 and ctx.choose([False, True], 'earlier_session'):
            # earlier in the session the user excluded this expression's own first alternative and joined that with something else (what two
            # filter commands do). Matchers parsed later must not be affected by it
            try:
                old = matcher.parse(R.r_expr(([], [e[0][0]])))
                matcher.join(matcher.parse('zz_a, zz_b'), old).simplify()
                matcher.join(matcher.parse('zz_c(1, 2)'), matcher.parse('zz_d')).simplify()
            except RuntimeError:
                pass
        parsed = matcher.parse(text)
        simp = matcher.parse(text).simplify()
        msg = _build_message(ctx, e, max_args)
        must, mustnot = R.d_expr(e, msg)
        for label, mm in (('parse(text).simplify()', simp),):     # the matcher a user can install is always the simplified one
            got = mm.matches(msg)
            if not isinstance(got, bool):
                got = bool(got)
            if label == 'parse(text)' and _has_const_item(e):
                continue      # unsimplified argument lists with constant items: documented don't-care (see L1)
            ctx.check('%s of `%s` selects the message iff the documented meaning says so' % (label, text), R.b_not(mustnot) if got else R.b_not(must))
            # matching is a function of the matcher text and the message alone: the same matcher after it has looked at other messages (a filter in
            # the middle of a session, `list` over a long history) answers as a freshly parsed one does - also where the documentation leaves the answer open
            if tier == 'quick' and idx % 2 == 1:
                continue        # quick tier: every other expression of the family (all of them in the thorough tier)
            warm = matcher.parse(text).simplify()
            for wm in _warmup_messages(msg):
                warm.matches(wm)
            got2 = bool(warm.matches(msg))
            ctx.check('the verdict of `%s` on a message does not depend on the messages the matcher has seen before' % text, got2 == got)
        ctx.note('expression', text)
    finally:
        for k, v in saved.items():
            if v is None:
                matcher.__dict__.pop(k, None)
            else:
                matcher.__dict__[k] = v


def _has_const_item(e):
    for p in e[0] + e[1]:
        if p[0] == 'msg' and p[4] is not None:
            for it in p[4][0] + p[4][1]:
                if it[0] != 'list' and it[1] is None:
                    return True
    return False


def variants(ctx, case):
    """added whitespace and redundant brackets do not change what is selected"""
    from core import matcher
    from spec import matcher_ref as R
    idx, tier = case
    e = gen_expressions(tier)[idx]
    text = R.r_expr(e)
    base = repr(matcher.parse(text).simplify())
    import re as _re
    how = ctx.choose(['spaces', 'spaces-inside', 'br-obj', 'br-name', 'br-item', 'br-value', 'br-conn', 'br-all'], 'variant')
    if how == 'spaces':
        v = '  ' + _re.sub(r'([,!:=])', r' \1  ', text) + ' '
    elif how == 'spaces-inside':
        v = _re.sub(r'([\[\(])', r'\1 ', _re.sub(r'([\]\)])', r' \1', text))
    else:
        br = {'br-obj': ('obj',), 'br-name': ('name',), 'br-item': ('item',), 'br-value': ('value',), 'br-conn': ('conn',), 'br-all': ('obj', 'name', 'item', 'value', 'conn')}[how]
        v = R.r_expr(e, br)
        if v == text:
            ctx.assume(False)
    if '"' in text and how.startswith('spaces'):
        ctx.assume(False)       # whitespace inside a quoted string is payload
    got = repr(matcher.parse(v).simplify())
    ctx.check('`%s` means the same as `%s`' % (v, text), got == base)


def _ref_glob(p, t):
    """regex-free reference: `*` matches any run of characters"""
    if p == '':
        return t == ''
    if p[0] == '*':
        return any(_ref_glob(p[1:], t[i:]) for i in range(len(t) + 1))
    return t != '' and p[0] == t[0] and _ref_glob(p[1:], t[1:])


WILD_PATTERNS = ['a*', '*a', 'a*b', 'ab*ab', 'a*b*c', '*', 'a**b', 'ab*b', 'a*a', '*a*', 'aa*a', 'a*aa', 'abc', '', 'a_*_b', 'wl_*_surface', 'x*x']


def wildcards(ctx, case):
    """`*` inside a word matches any run of characters (incl. the empty run, and never overlapping prefix/suffix)"""
    from core import matcher
    p = case
    alpha = sorted(set(c for c in p if c != '*')) or ['a']
    if len(alpha) == 1:
        alpha = alpha + ['b']
    alpha = alpha[:3]
    n = ctx.choose(list(range(0, 6)), 'len')
    t = ''.join(ctx.choose(alpha, 'ch%d' % i) for i in range(n))
    got = matcher.str_matcher(p).matches(t)
    ctx.check('str_matcher(%r) on a text over %r' % (p, alpha), got == _ref_glob(p, t))
    if p in ('wl_*_surface', 'x*x', 'a_*_b'):
        for t2 in ('wl_surface', 'wl__surface', 'wl_x_surface', 'x', 'xx', 'a_b', 'a__b', 'a_c_b', 'wl_surface_surface'):
            ctx.check('str_matcher(%r) on %r' % (p, t2), matcher.str_matcher(p).matches(t2) == _ref_glob(p, t2))


def twin(ctx, case):
    expression(ctx, case)
    ctx.check('reachability twin (must be violated)', False)


def obligations(tier):
    n = len(gen_expressions(tier))
    max_args = 1 if tier == 'quick' else 2
    lists = [(p, q) for p in range(0, 4) for q in range(0, 3)]
    argl = [(p, q, a) for p in range(0, 3) for q in range(0, 3) for a in range(0, 3)]
    bounds3 = ('%d expressions enumerated from the grammar (objects: any/type/glob/id/id+letters/lists; names: text/glob/new/destroyed/lists; argument items: 12 value atoms x name/no name, bracket lists, '
               'negatives; connection prefix; two-pattern lists, exclusions, exclusion-only); message: connection none/A/B, <= %d arguments of the distinguishable kinds + others, symbolic ids in [1,2^32), '
               'incarnations < 2^16, integer values in [-2^31, 2^32), fixed values k/256 for all 32-bit k' % (n, max_args))
    return [
        Ob('L1-matcher-list', 'symx', 'MatcherList over abstract leaves: matches, simplify, always', FUNCS[10:12], '<= 3 positives, <= 2 negatives, every always() annotation, verdicts symbolic', comb_list, cases=lists),
        Ob('L1-args-list', 'symx', 'ArgsMatcherList over abstract leaves', FUNCS[12:14], '<= 2 + 2 leaves, <= 2 arguments', comb_args, cases=argl,
           outside='argument tuples of length 0 together with a constant-true item (undocumented syntax)'),
        Ob('L1-pair-and-wrap', 'symx', 'PairMatcher / WrapMatcher / ArgMatcher over abstract leaves: matches and simplify', FUNCS[25:27] + FUNCS[19:20], 'every always() annotation, verdicts symbolic', comb_pair, cases=[None]),
        Ob('L1-message-pattern', 'symx', 'MessagePattern over abstract components incl. the .new / .destroyed alternatives', FUNCS[8:10], 'all four components abstract, creates / destroys on or off', comb_pattern,
           cases=[(a, b) for a in (False, True) for b in (False, True)]),
        Ob('L3-expressions', 'symx', 'parse(text) and parse(text).simplify() vs the reference denotation on symbolic messages', FUNCS, bounds3, expression,
           cases=[(i, max_args, tier) for i in range(n)], stubs=['int/float shadowed in core.matcher so that symbolic values pass through int()/float()'],
           outside='expression texts outside the enumerated family; don\'t-care regions of the denotation', budget_s=900),
        Ob('L2-wildcards', 'symx', 'str_matcher / WildcardMatcher vs a regex-free reference glob', FUNCS[23:25], '%d patterns x all texts of <= 5 characters over the pattern\'s alphabet (exhaustive)' % len(WILD_PATTERNS),
           wildcards, cases=WILD_PATTERNS),
        Ob('whitespace-and-brackets', 'symx', 'whitespace placement and redundant brackets do not change the parsed matcher', FUNCS[:8], '4 rewritings of each of the %d expressions' % n, variants,
           cases=[(i, tier) for i in range(n)]),
        Ob('L3-reachable', 'symx', 'reachability twin', FUNCS, '', twin, cases=[(3, max_args, tier)], expect_cex=True),
    ]
