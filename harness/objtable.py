"""C02 / C03: one inductive step of the per-connection object table.

Pre-state: an arbitrary table satisfying Inv, built through the public API
(ConnectionImpl.create_object / ObjectBase.destroy), with fully symbolic ids (association-list
table, so an id is never hashed) and symbolic non-decreasing times.
Step: ONE real ConnectionImpl.message(msg) with symbolic target id, symbolic argument ids/values,
structure (name, argument kinds, incarnation counts, alive flags, type hints, direction) chosen.
Oracle: the reference table model below (written from the property text, not from the code).
Post: every mention resolved to the model's incarnation; the table changed exactly as the model
says; Inv again.  Inv /\\ step => Inv' /\\ spec covers histories of any length.
"""
import logging
from lib.runner import Ob
from lib.stubs import AssocDict

T, U, REG, DISP = 'wl_t', 'wl_u', 'wl_registry', 'wl_display'
SERVER_BASE = 0xff000000

KINDS = ['int', 'obj', 'new', 'newu', 'nil', 'other']


class Inc:
    __slots__ = ('type', 'alive', 'ct', 'dt', 'real', 'pre')

    def __init__(self, type_, alive, ct, dt, real, pre):
        self.type, self.alive, self.ct, self.dt, self.real, self.pre = type_, alive, ct, dt, real, pre


class Model:
    """reference object table: id -> list of incarnations, latest last"""

    def __init__(self):
        self.ents = []

    def entry(self, i):
        for k, incs in self.ents:
            if k == i:          # symbolic comparison: forks on id coincidences
                return incs
        incs = []
        self.ents.append((i, incs))
        return incs


def _setup():
    from core import wl
    from core.wl import protocol
    logging.disable(logging.CRITICAL)
    protocol.interfaces.clear()   # argument names / enums are C07's subject
    wl.Message.base_time = 0
    return wl


def step(ctx, case):
    which, name, kinds, nids, maxg = case
    wl = _setup()
    from core.connection_impl import ConnectionImpl
    from core.letter_id_generator import number_to_letter_id
    C02 = which in ('C02', 'both')
    C03 = which in ('C03', 'both')

    # which side of the connection the log was taken on (unknown / server / client) is no business of the object table: spread over the cases
    conn = ConnectionImpl(0, 'A', [None, True, False][sum(map(ord, repr(case))) % 3])
    conn.db = AssocDict(conn.db)
    model = Model()
    model.ents.append((1, [Inc(DISP, True, 0.0, None, conn.display, True)]))

    # ---- arbitrary pre-state satisfying Inv, built through the public API
    ids = []
    clock = ctx.fresh_int('t0', 0, None)
    for n in range(nids):
        i = ctx.fresh_int('id%d' % n, 2, 2 ** 32)
        for j in ids:
            ctx.assume(i != j)
        ids.append(i)
        # id0 has the rich history; further ids have exactly one incarnation (they matter for frame conditions and coincidences)
        g = ctx.choose(list(range(maxg + 1)), 'count%d' % n) if n == 0 else 1
        if g == 0:
            continue
        last_alive = ctx.choose([True, False], 'alive%d' % n)
        if name == 'bind' and n == 0:
            types = [U, T, REG][-g:] if g <= 3 else [T] * (g - 1) + [REG]
        else:
            types = ([T, U] * 3)[n:n + g]
        incs = model.entry(i)
        server = None
        for k in range(g):
            tc = ctx.fresh_int('ct%d_%d' % (n, k), None, None)
            ctx.assume(tc >= clock)
            clock = tc
            if k > 0 and incs[-1].alive:
                # only a server-range id can be handed out again while alive (implicit destruction)
                if server is None:
                    server = bool(i >= SERVER_BASE)
                if not server:
                    ctx.assume(False)
                incs[-1].alive = False
                incs[-1].dt = tc
            o = conn.create_object(tc, conn.display, i, types[k])
            incs.append(Inc(types[k], True, tc, None, o, True))
            if k < g - 1 or not last_alive:
                # explicit destruction (what delete_id does) or -- for server ids -- left alive for reuse
                if k < g - 1 and ctx.choose([True, False], 'implicit%d_%d' % (n, k)):
                    continue
                td = ctx.fresh_int('dt%d_%d' % (n, k), None, None)
                ctx.assume(td >= clock)
                clock = td
                o.destroy(td)
                incs[-1].alive = False
                incs[-1].dt = td
    # the time of the step is ANY integer: libwayland's log clock is a 32-bit microsecond counter that wraps every 71.6 minutes, and logs of
    # several runs get concatenated - a message may carry an earlier time than the creation of the objects it mentions or destroys
    now = ctx.fresh_int('now', None, None)

    # snapshot for the frame conditions
    snapshot = []
    for k, incs in model.ents:
        for gi, inc in enumerate(incs):
            snapshot.append((inc.real, inc.real.type, inc.real.generation, inc.real.alive, inc.real.create_time, inc.real.destroy_time, inc.real.id))
    n_pre_keys = len(conn.db.items_)

    # ---- the message: structure chosen, scalars symbolic
    sent = ctx.choose([False, True], 'sent') if name == 'delete_id' else (len(kinds) % 2 == 1)
    tgt = ctx.fresh_int('tgt', 1, 2 ** 32)
    if name == 'bind':
        kinds = ('int', 'str', 'int', 'newu')
    vals = []
    for ai, k in enumerate(kinds):
        if k in ('obj', 'new', 'newu'):
            v = ctx.fresh_int('arg%d' % ai, 2 if k != 'obj' else 1, 2 ** 32)
        elif k == 'int':
            v = ctx.fresh_int('arg%d' % ai, 0, 2 ** 32)
        else:
            v = None
        vals.append(v)
    new_types = [ctx.choose([T, U, REG], 'ntype%d' % ai) if k == 'new' else None for ai, k in enumerate(kinds)]
    hinted = [(ctx.choose([True, False], 'hint%d' % ai) if ai == 0 else True) if k in ('obj',) else False for ai, k in enumerate(kinds)]
    tgt_hinted = ctx.choose([False, True], 'hint_t')

    # ---- reference model of the step (decides the expectations, and which type names a well-formed
    #      line would carry)
    exp_args = [None] * len(kinds)      # ('res', Inc) | ('unres',) | None
    hint_types = [None] * len(kinds)
    tincs = model.entry(tgt)
    if tincs:
        exp_tgt = ('res', tincs[-1])
        tgt_type = tincs[-1].type
    else:
        exp_tgt = ('unres',)
        tgt_type = REG if name == 'bind' else T
    on_display = bool(tincs) and tincs[-1].real is conn.display
    is_bind = (name == 'bind') and ((tgt_type == REG) if tincs else tgt_hinted)
    if name == 'bind' and not is_bind:
        ctx.assume(False)       # keep the bind cases to real binds; other shapes are covered by the generic cases
    bind_type = U
    exp_destroyed = None
    destroyed_was_alive = None
    if name == 'delete_id' and on_display and len(kinds) > 0:
        if kinds[0] != 'int':
            ctx.assume(False)   # ill-formed: delete_id's argument is the id
        vincs = model.entry(vals[0])
        if not vincs or vincs[-1].real is conn.display:
            ctx.assume(False)   # ill-formed: delete_id of an id that never existed / of the display
        victim = vincs[-1]
        if not victim.alive:
            ctx.assume(False)   # ill-formed: delete_id of an id whose object is already gone
        exp_destroyed = victim
        destroyed_was_alive = victim.alive
        if victim.alive:
            victim.alive = False
            victim.dt = now
    for ai, k in enumerate(kinds):
        v = vals[ai]
        if k == 'obj' or k == 'newu' and not is_bind:
            incs = model.entry(v)
            if incs:
                exp_args[ai] = ('res', incs[-1])
                hint_types[ai] = incs[-1].type if hinted[ai] else None
            else:
                exp_args[ai] = ('unres',)
                hint_types[ai] = T if hinted[ai] else None
        elif k == 'new' or k == 'newu':
            nt = new_types[ai] if k == 'new' else bind_type
            incs = model.entry(v)
            if incs and incs[-1].alive:
                if (nt == REG and bool(v == 2)) or not bool(v >= SERVER_BASE):
                    # a live client-range id is never handed out again: nothing is created, the mention goes to the live object
                    if incs[-1].type != nt:
                        ctx.assume(False)   # ill-formed (type clash)
                    exp_args[ai] = ('res', incs[-1])
                    continue
                incs[-1].alive = False      # server-range id handed out again: implicit destruction
                incs[-1].dt = now
            inc = Inc(nt, True, now, None, None, False)
            incs.append(inc)
            exp_args[ai] = ('res', inc)

    # ---- build the real message and run the real step
    def mk(ai, k):
        v = vals[ai]
        if k == 'int':
            return wl.Arg.Int(v)
        if k == 'str':
            return wl.Arg.String(bind_type)
        if k == 'obj':
            return wl.Arg.Object(wl.UnresolvedObject(v, hint_types[ai]), False)
        if k == 'new':
            return wl.Arg.Object(wl.UnresolvedObject(v, new_types[ai]), True)
        if k == 'newu':
            return wl.Arg.Object(wl.UnresolvedObject(v, None), True)
        if k == 'nil':
            return wl.Arg.Null()
        return ctx.choose([wl.Arg.Fd(3), wl.Arg.Float(1.5), wl.Arg.Array(), wl.Arg.String('s')], 'other%d' % ai)
    args = tuple(mk(ai, k) for ai, k in enumerate(kinds))
    msg = wl.Message(now, wl.UnresolvedObject(tgt, tgt_type if tgt_hinted else None), sent, ['destroy', 'release', 'x'][len(kinds) % 3] if name == 'other' else name, args)    # no message name but delete_id (and bind's typing) means anything to the table: not `destroy`, not `release`
    n_before = len(conn.message_list)
    conn.message(msg)

    # ---- compare
    def same_obj(label, real, exp):
        if exp[0] == 'unres':
            ctx.check(label + ' stays unresolved (no object with that id exists)', not real.resolved())
            return
        inc = exp[1]
        ctx.check(label + ' is resolved', real.resolved())
        if not real.resolved():
            return
        if inc.real is not None:
            ctx.check(label + ' is the latest existing incarnation (object identity)', real is inc.real)
        else:
            inc.real = real
    if C02:
        same_obj('C02 target', msg.obj, exp_tgt)
        for ai, k in enumerate(kinds):
            if exp_args[ai] is not None:
                same_obj('C02 arg%d(%s)' % (ai, k), args[ai].obj, exp_args[ai])
        ctx.check('C02 message recorded once', len(conn.message_list) == n_before + 1 and conn.message_list[-1] is msg)
    else:
        for ai, k in enumerate(kinds):
            if exp_args[ai] is not None and exp_args[ai][0] == 'res' and exp_args[ai][1].real is None and args[ai].obj.resolved():
                exp_args[ai][1].real = args[ai].obj
    if C03:
        if exp_destroyed is not None:
            ctx.check('C03 delete_id annotates the destroyed object', msg.destroyed_obj is exp_destroyed.real)
            if destroyed_was_alive and msg.destroyed_obj is not None:
                ctx.check('C03 lifespan = destroying time - creating time', msg.destroyed_obj.lifespan() == now - exp_destroyed.ct)
        else:
            ctx.check('C03 no destruction annotation on any other message', msg.destroyed_obj is None)
    # table: exactly the model's incarnations, Inv holds again
    n_keys = 0
    for k, incs in model.ents:
        lst = conn.db.get(k, None)
        if not incs:
            if C02:
                ctx.check('C02 no object appears for an id nothing created', lst is None or len(lst) == 0)
            continue
        n_keys += 1
        if lst is None:
            ctx.check('table lost id', False)
            continue
        if C02:
            ctx.check('C02 incarnation count of an id (creations exactly as the model says)', len(lst) == len(incs))
        if C03:
            ctx.check('C03 objects come into being / a handed-out-again server id starts a new incarnation exactly as the model says', len(lst) == len(incs))
        if len(lst) != len(incs):
            continue
        for gi, (o, inc) in enumerate(zip(lst, incs)):
            if C02:
                if inc.real is not None:
                    ctx.check('C02 table slot holds the object the mention was attributed to', o is inc.real)
                ctx.check('C02 generation = creation order', o.generation == gi)
                ctx.check('C02 id', o.id == k)
                ctx.check('C02 type from the new-id argument / bind', o.type == inc.type)
                ctx.check('C02 label = id + letters in creation order',
                          o.id_str() == '@' + str(o.id) + number_to_letter_id(gi, False))
                ctx.check('C02 connection', o.connection is conn)
            if C03:
                ctx.check('C03 alive flag (gen %d)' % gi, o.alive == inc.alive)
                ctx.check('C03 creation time', o.create_time == inc.ct)
                if not inc.alive and inc.dt is not None:
                    ctx.check('C03 destruction time', o.destroy_time == inc.dt)
                    ctx.check('C03 lifespan()', o.lifespan() == inc.dt - inc.ct)
                if inc.alive and inc.real is not conn.display:
                    ctx.check('C03 live object has no lifespan', o.lifespan() is None)
        if C03:
            ctx.check('C03 at most one live incarnation per id, and only the latest', all(not o.alive for o in lst[:-1]))
    if C02:
        ctx.check('C02 no other id enters the table', len(getattr(conn.db, 'items_', conn.db)) == n_keys)
    # frame: nothing that existed before is retyped, relabelled, re-timed or resurrected
    for (o, ty, gen, alive, ct, dt, oid) in snapshot:
        if C02:
            ctx.check('C02 frame: type/generation/id of an existing object unchanged', o.type == ty and o.generation == gen)
        if C03:
            ctx.check('C03 frame: creation time unchanged', o.create_time == ct)
            if not alive:
                ctx.check('C03 never resurrected', not o.alive)
                if exp_destroyed is None or o is not exp_destroyed.real:
                    ctx.check('C03 frame: destruction time of a dead object unchanged', o.destroy_time == dt)
    ctx.check('display stays the only incarnation of id 1', list(conn.db.get(1) or []) == [conn.display] and conn.display.alive and conn.wl_display() is conn.display)


def long_reuse(ctx, case):
    """an id handed out many times: incarnation index and label of every mention keep following the creation order (a..z, aa, ab, ..)"""
    n, server = case
    wl = _setup()
    from core.connection_impl import ConnectionImpl
    from core.letter_id_generator import number_to_letter_id
    from core import util
    util.color_output = False
    conn = ConnectionImpl(0, 'A', ctx.choose([None, True, False], 'side'))
    conn.db = AssocDict(conn.db)
    i = ctx.fresh_int('id', SERVER_BASE if server else 2, 2 ** 32 if server else SERVER_BASE)
    t = 0
    for k in range(n):
        t += 1
        m = wl.Message(t, wl.UnresolvedObject(1, None), True, 'make', (wl.Arg.Object(wl.UnresolvedObject(i, T), True),))
        conn.message(m)
        o = m.args[0].obj
        ctx.check('creation %d gives incarnation %d' % (k, k), o.resolved() and o.generation == k)
        if k in (0, 25, 26, 27, 51, 52, 701, 702, n - 1):
            ctx.check('incarnation %d is labelled %s' % (k, number_to_letter_id(k, False)), o.id_str() == '@' + str(o.id) + number_to_letter_id(k, False))
        if not server:
            t += 1
            conn.message(wl.Message(t, wl.UnresolvedObject(1, None), False, 'delete_id', (wl.Arg.Int(i),)))
    m = wl.Message(t + 1, wl.UnresolvedObject(i, None), False, 'poke', (wl.Arg.Object(wl.UnresolvedObject(i, None), False),))
    conn.message(m)
    ctx.check('a later mention goes to the latest incarnation', m.obj.resolved() and m.obj.generation == n - 1 and m.args[0].obj is m.obj)
    labels = [o.id_str() for o in conn.db[i]]
    ctx.check('no two incarnations share a label', len(set(labels)) == len(labels))


def undescribed(ctx, case):
    """with the real protocol descriptions loaded: a new id carried by a message (or at a position) the shipped description of a KNOWN
    interface does not have still creates its object, and later mentions go to it"""
    from core import wl, matcher, util
    from core.connection_manager import ConnectionManager
    from core.wl import protocol
    from core.output import Output, stream
    from backends.libwayland_debug_output import parse
    import logging
    logging.disable(logging.CRITICAL)
    if not protocol.interfaces or 'wl_display' not in protocol.interfaces:
        protocol.interfaces.clear()
        protocol.load_all(Output(False, False, stream.Null(), stream.Null()))
    util.color_output = False
    wl.Message.base_time = None
    kind = ctx.choose(['unknown-message', 'beyond-last-argument', 'described'], 'kind')
    sent = ctx.choose([True, False], 'sent')
    arrow = '  -> ' if sent else ' '
    creator = {'unknown-message': 'wl_display@1.get_registry_v9(new id wl_registry@9)',
               'beyond-last-argument': 'wl_display@1.get_registry(new id wl_registry@2, 5, new id wl_callback@9)',
               'described': 'wl_display@1.sync(new id wl_callback@9)'}[kind]
    mgr = ConnectionManager()
    mgr.open_connection(0.0, 'PARSED', None)
    lines = ['[1.000]%s%s' % (arrow, creator), '[2.000]%sthing@9.poke(thing@9)' % arrow]
    msgs = []
    for l in lines:
        cid, m = parse.message(l.replace('thing@9', {'unknown-message': 'wl_registry@9', 'beyond-last-argument': 'wl_callback@9', 'described': 'wl_callback@9'}[kind]))
        mgr.message(cid, m)
        msgs.append(m)
    news = [a for a in msgs[0].args if isinstance(a, wl.Arg.Object) and a.is_new]
    ctx.check('every new-id argument creates its object', all(a.obj.resolved() and a.obj.generation == 0 for a in news))
    ctx.check('a later message on that id is attributed to the created object', msgs[1].obj.resolved() and msgs[1].obj is [a for a in news if a.obj.id == 9][0].obj)
    ctx.check('and so is a later object argument', msgs[1].args[0].obj is msgs[1].obj)
    # C03: the object lives from that creation to its delete_id, which names it
    created = [a for a in news if a.obj.id == 9][0].obj
    ctx.check('alive from its creation on', getattr(created, 'alive', None) is True)
    cid, d = parse.message('[3.500] wl_display@1.delete_id(9)')
    mgr.message(cid, d)
    ctx.check('delete_id destroys exactly that object (dead from then on, lifespan 2.5 ms - log stamps are milliseconds -, annotated on the delete_id message)',
              getattr(created, 'alive', None) is False and d.destroyed_obj is created and created.lifespan() is not None and abs(created.lifespan() - 0.0025) < 1e-9)
    protocol.interfaces.clear()


def annotation(ctx, case):
    """what the user sees: the delete_id line, and only it, carries ` -- type@id+letters.destroyed after N.NNNNs` with the lifespan"""
    import re
    from core import wl, matcher, util
    from core.connection_manager import ConnectionManager
    from core.output import Output
    from frontends.tui.controller import Controller
    from backends.libwayland_debug_output import parse
    from lib.stubs import RecStream
    _setup()
    util.color_output = False
    wl.Message.base_time = None
    side = ctx.choose(['client', 'server'], 'side')            # delete_id received (client log) or sent (server log)
    t_create = ctx.choose([1000000, 1000250, 2500000], 't_create')     # microseconds
    gap = ctx.choose([0, 200, 1500000, 123456789], 'gap')
    first_is_creator = ctx.choose([True, False], 'creator_is_first_line')
    reuse = ctx.choose([False, True], 'id_reused_before')
    def stamp(us):
        return '%d.%03d' % (us // 1000, us % 1000)
    arrow_req = '  -> ' if side == 'client' else ' '
    arrow_ev = ' ' if side == 'client' else '  -> '
    lines = []
    if not first_is_creator:
        lines.append('[%s]%swl_display@1.get_registry(new id wl_registry@2)' % (stamp(t_create - 500), arrow_req))
    if reuse:
        lines.append('[%s]%swl_display@1.sync(new id wl_callback@3)' % (stamp(t_create - 300 if not first_is_creator else t_create), arrow_req))
        lines.append('[%s]%swl_display@1.delete_id(3)' % (stamp(t_create - 200 if not first_is_creator else t_create), arrow_ev))
    lines.append('[%s]%swl_display@1.sync(new id wl_callback@3)' % (stamp(t_create), arrow_req))
    lines.append('[%s]%swl_callback@3.done(7)' % (stamp(t_create + gap // 2), arrow_ev))
    lines.append('[%s]%swl_display@1.delete_id(3)' % (stamp(t_create + gap), arrow_ev))
    lines.append('[%s]%swl_display@1.sync(new id wl_callback@3)' % (stamp(t_create + gap + 100), arrow_req))

    class F:
        i = 0
        def readline(self):
            F.i += 1
            return lines[F.i - 1] + '\n' if F.i <= len(lines) else ''
    out, err = RecStream(), RecStream()
    output = Output(False, True, out, err)
    mgr = ConnectionManager()
    Controller(output, mgr, matcher.always, matcher.never)
    parse.into_sink(F(), output, mgr)
    msg_lines = [s for s in out.items if re.match(r'^\s*-?\d+\.\d{4} ', s)]
    ctx.check('one output line per message', len(msg_lines) == len(lines))
    if len(msg_lines) != len(lines):
        return
    letter = 'b' if reuse else 'a'
    for src, shown in zip(lines, msg_lines):
        if 'delete_id' in src:
            is_last_delete = src is lines[-2]
            m = re.search(r' -- wl_callback@3([a-z]+)\.destroyed after (\d+\.\d{4})s', shown)
            ctx.check('the delete_id line is annotated with the destroyed object and a lifespan', m is not None)
            if m and is_last_delete:
                ctx.check('annotated with exactly the incarnation it destroyed', m.group(1) == letter)
                ctx.check('lifespan = time of the destroying message - time of the creating message', m.group(2) == '%0.4f' % (gap / 1e6))
        else:
            ctx.check('no other line carries a destruction annotation', ' -- ' not in shown and 'destroyed' not in shown)
    ctx.check('the id is usable again afterwards: next incarnation letter', ('wl_callback@3' + chr(ord(letter) + 1)) in msg_lines[-1])


def log_histories(ctx, case):
    """every well-formed history of <= n log lines over ids 2, 3 and a server-range id (create as registry / callback, mention, delete_id, re-use),
    untagged (stock libwayland) or tagged, through the real decoder, line loop, connection manager and display: labels, incarnation letters,
    destruction annotations, lifespans and the final alive flags against a reference table; the connection stays ONE connection"""
    import re
    from core import wl, matcher, util
    from core.connection_manager import ConnectionManager
    from core.output import Output
    from frontends.tui.controller import Controller
    from backends.libwayland_debug_output import parse
    from core.letter_id_generator import number_to_letter_id
    from lib.stubs import RecStream
    n, tagged = case[:2]
    wrap = len(case) > 2 and case[2]
    _setup()
    util.color_output = False
    wl.Message.base_time = None
    S = SERVER_BASE
    ref = {}        # id -> list of [type, t_create, alive]
    lines, expect = [], []
    tag = ' <7>' if tagged else ''
    # wrap: the 32-bit microsecond clock of the log wraps after the second line
    t = 1000000 if not wrap else 2 ** 32 - 600000
    for step_i in range(n):
        ops = []
        for i in (2, 3):
            cur = ref.get(i)
            if cur and cur[-1][2]:
                ops += [('delete', i), ('mention', i)]
            else:
                ops.append(('create', i, 'wl_callback'))
                if i == 2 or wrap:
                    # the registry is usually, not necessarily, the first object: a client may sync first (registry on id 3, and id 2, once freed,
                    # may later carry a second registry while the first is in use)
                    ops.append(('create', i, 'wl_registry'))
        ops.append(('create', S, 'wl_offer'))
        for i in (2, 3):
            if ref.get(i) and ref[i][-1][2] and len(ops) < 7:
                ops.append(('create', S, 'wl_offer', i))     # introduced by an event on another object (wl_data_device.data_offer): it does not go away with that object
        if ref.get(S):
            ops.append(('mention', S))
        op = ctx.choose(ops, 'op%d' % step_i)
        t = (t + 250000) % 2 ** 32
        stamp = '%d.%03d' % (t // 1000, t % 1000)
        if op[0] == 'create':
            i, ty = op[1], op[2]
            lst = ref.setdefault(i, [])
            if lst and lst[-1][2]:
                lst[-1][2] = False      # server-range id handed out again: the previous holder is gone
            lst.append([ty, t, True])
            lab = '%s@%d%s' % (ty, i, number_to_letter_id(len(lst) - 1, False))
            if i == S:
                via = 'wl_display@1' if len(op) < 4 else '%s@%d' % (ref[op[3]][-1][0], op[3])
                lines.append('[%s]%s %s.offer(new id wl_offer@%d)' % (stamp, tag, via, S))
            elif ty == 'wl_registry':
                lines.append('[%s]%s  -> wl_display@1.get_registry(new id wl_registry@%d)' % (stamp, tag, i))
            else:
                lines.append('[%s]%s  -> wl_display@1.sync(new id wl_callback@%d)' % (stamp, tag, i))
            expect.append(('create', lab, None))
        elif op[0] == 'mention':
            i = op[1]
            lst = ref[i]
            ty = lst[-1][0]
            lab = '%s@%d%s' % (ty, i, number_to_letter_id(len(lst) - 1, False))
            lines.append('[%s]%s %s@%d.poke(%s@%d)' % (stamp, tag, ty, i, ty, i))
            expect.append(('mention', lab, None))
        else:
            i = op[1]
            lst = ref[i]
            lst[-1][2] = False
            lab = '%s@%d%s' % (lst[-1][0], i, number_to_letter_id(len(lst) - 1, False))
            lines.append('[%s]%s wl_display@1.delete_id(%d)' % (stamp, tag, i))
            expect.append(('delete', lab, '%0.4f' % ((t - lst[-1][1]) / 1e6) if t >= lst[-1][1] else None))     # across a wrap of the clock the lifespan shown is not constrained

    class F:
        i = 0
        def readline(self):
            F.i += 1
            return lines[F.i - 1] + chr(10) if F.i <= len(lines) else ''
    out, err = RecStream(), RecStream()
    output = Output(False, True, out, err)
    mgr = ConnectionManager()
    Controller(output, mgr, matcher.always, matcher.never)
    parse.into_sink(F(), output, mgr)
    ctx.check('no error output', err.items == [])
    ctx.check('the lines of one connection id stay ONE connection, announced once and closed once at the end',
              len(mgr.connections()) == 1 and len([x for x in out.items if x.startswith('New ')]) == 1 and len([x for x in out.items if x.startswith('Closed ')]) == 1
              and out.items[-1].startswith('Closed '))
    shown = [x for x in out.items if re.match(r'^\s*-?\d+\.\d{4} ', x)]
    ctx.check('one output line per message', len(shown) == len(lines))
    if len(shown) != len(lines) or len(mgr.connections()) != 1:
        return
    for k, ((kind, lab, life), text) in enumerate(zip(expect, shown)):
        if kind == 'delete':
            m = re.search(r' -- (\S+)\.destroyed after (-?\d+\.\d{4})s', text)
            ctx.check('line %d (delete_id): annotated with exactly the incarnation it destroyed (%s) and its lifespan (%s)' % (k, lab, life),
                      m is not None and m.group(1) == lab and (life is None or m.group(2) == life))
        else:
            ctx.check('line %d (%s): no destruction annotation' % (k, kind), ' -- ' not in text and 'destroyed' not in text)
            ctx.check('line %d (%s): names %s (latest incarnation of its id, letters in creation order)' % (k, kind, lab),
                      text.count(lab + ')') + text.count(lab + '.') == (2 if kind == 'mention' else 1))
    conn = mgr.connections()[0]
    for i, lst in ref.items():
        got = conn.db.get(i) or []
        ctx.check('table of id %d: one object per creation, in order' % i, len(got) == len(lst))
        if len(got) == len(lst):
            ctx.check('alive flags of id %d: exactly the last incarnation if not deleted; never resurrected' % i, [o.alive for o in got] == [x[2] for x in lst])
    ctx.check('message count', len(conn.messages()) == len(lines))


def merged_streams(ctx, case):
    """two Wayland connections of one program logged WITHOUT connection tags end up as one stream (upstream issue #5): ids are requested again while
    their holders are alive. Whatever the tool makes of such a stream (it reports an error and refuses the second registry), it never shows two
    different objects of one connection under the same label, and `list <label>` never mixes them"""
    import re
    from core import wl, matcher, util
    from core.connection_manager import ConnectionManager
    from core.output import Output
    from frontends.tui.controller import Controller
    from backends.libwayland_debug_output import parse
    from lib.stubs import RecStream
    n = case
    _setup()
    util.color_output = False
    wl.Message.base_time = None
    pool = [' -> wl_display@1.get_registry(new id wl_registry@2)', ' -> wl_registry@2.bind(1, "wl_compositor", 4, new id [unknown]@3)',
            ' -> wl_compositor@3.create_surface(new id wl_surface@4)', ' -> wl_surface@4.commit()', 'wl_display@1.delete_id(4)']
    t = 1000000
    lines = []
    for k in range(n):
        t += 250000
        lines.append('[%d.%03d] %s' % (t // 1000, t % 1000, pool[k] if k < 3 else ctx.choose(pool, 'line%d' % k)))
    out, err = RecStream(), RecStream()
    output = Output(False, True, out, err)
    mgr = ConnectionManager()
    c = Controller(output, mgr, matcher.always, matcher.never)
    import io
    parse.into_sink(io.StringIO(''.join(l + chr(10) for l in lines)), output, mgr)
    for conn in mgr.connections():
        seen = {}
        for m in conn.messages():
            objs = [m.obj] + [a.obj for a in m.args if isinstance(a, wl.Arg.Object)] + ([m.destroyed_obj] if getattr(m, 'destroyed_obj', None) is not None else [])
            for o in objs:
                if o.resolved():
                    lab = '%s@%s' % (o.type, o.id_str()) if hasattr(o, 'id_str') else str(o)
                    ctx.check('on one connection a label (type@id+letters) names ONE object, however ill-formed the stream', seen.setdefault(lab, o) is o)


def twin(ctx, case):
    step(ctx, case)
    ctx.check('reachability twin (must be violated)', False)


FUNCS = ['core.connection_impl:ConnectionImpl.message', 'core.connection_impl:ConnectionImpl.create_object',
         'core.connection_impl:ConnectionImpl.retrieve_object', 'core.wl.message:Message.__init__', 'core.wl.message:Message.resolve',
         'core.wl.arg:Arg.Object.resolve', 'core.wl.arg:Arg.Object.set_type', 'core.wl.arg:Arg.Base.resolve',
         'core.wl.object:UnresolvedObject.resolve', 'core.wl.object:ObjectBase.destroy', 'core.wl.object:ObjectBase.lifespan',
         'core.wl.object:ObjectBase.id_str', 'core.letter_id_generator:number_to_letter_id']
STUBS = ['ConnectionImpl.db replaced by an association-list mapping (== on keys, no hashing)', 'logging disabled',
         'protocol descriptions not loaded (argument names/enums are C07)', 'Message.base_time = 0 (times are symbolic integers)']


def make_obligations(pid, tier):
    import itertools
    cases = []

    def add(names, nargs, kinds_pool, nids, maxg):
        for name in names:
            for kinds in itertools.product(kinds_pool, repeat=nargs):
                c = (pid, name, kinds, nids, maxg)
                if c not in cases:
                    cases.append(c)
    if tier == 'quick':
        add(('other', 'delete_id'), 0, KINDS, 2, 2)
        add(('other', 'delete_id'), 1, KINDS, 2, 2)
        add(('other', 'delete_id'), 2, KINDS, 1, 2)
        cases.append((pid, 'bind', (), 2, 2))
        bound_txt = ('<= 1 argument: 2 table ids (one with 0..2 incarnations, one with exactly 1); 2 arguments: 1 table id with 0..2 incarnations')
    else:
        add(('other', 'delete_id'), 0, KINDS, 2, 3)
        add(('other', 'delete_id'), 1, KINDS, 2, 3)
        add(('other', 'delete_id'), 2, KINDS, 2, 3)
        add(('other',), 3, ['obj', 'new'], 1, 2)
        add(('delete_id',), 3, ['int', 'new'], 1, 2)
        cases.append((pid, 'bind', (), 2, 3))
        bound_txt = ('<= 2 arguments of all kinds: 2 table ids (one with 0..3 incarnations, one with exactly 1); 3 arguments of kinds obj/new (int/new for delete_id): 1 table id, 0..2 incarnations')
    # heavy cases first
    cases.sort(key=lambda c: -len(c[2]))
    bounds = (bound_txt + '; table ids arbitrary integers in [2, 2^32), last incarnation alive or dead, server-range reuse explicit or implicit; '
              'target id arbitrary in [1, 2^32); argument kinds %s with arbitrary ids/values; direction, type hints present/absent chosen; '
              'times arbitrary non-decreasing integers' % '/'.join(KINDS))
    outside = ('ill-formed steps (type clash between a mention and the table, delete_id of an unknown / already deleted id or of the display, new id <= 1, '
               'bind with other than 4 arguments) are assumed away; floating-point times (integers used); more table ids / incarnations / arguments than the bound')
    extra = [Ob('destruction-annotation', 'symx', 'rendered delete_id line: annotated with exactly the destroyed incarnation and lifespan, no other line annotated (client and server side logs, id reuse, zero and long lifespans)',
                FUNCS + ['core.wl.message:Message.__str__'], '2 sides x 3 creation times x 4 lifespans x creator first or not x id reused before or not', annotation, cases=[None])] if pid == 'C03' else []
    extra += [Ob('long-reuse', 'symx', 'one id handed out up to 1100 (4200) times (client id with delete_id in between, or server-range id reused freely): incarnation index and letters of every creation and mention',
                 FUNCS, 'id symbolic in the client resp. server range; 27, 28, 53, 703 and 1100 (thorough: up to 4200) creations', long_reuse, cases=[(27, False), (28, True), (53, True), (703, False), (1100, True)] if tier == 'quick' else [(27, False), (27, True), (28, True), (28, False), (53, True), (703, False), (704, True), (1100, True), (2100, False), (4200, True)])] if pid == 'C02' else []
    extra += [Ob('creation-on-undescribed-message', 'symx', 'with the shipped descriptions loaded, a new id on a message / at a position the description of a known interface lacks still creates its object', FUNCS + ['core.wl.protocol:get_arg'],
                 '3 message shapes x 2 directions, through the real decoder', undescribed, cases=[None])]
    extra += [Ob('log-histories', 'symx', 'well-formed histories of log lines (ids 2, 3 and a server-range id; create as registry/callback, mention, delete_id, re-use) through the real decoder, line loop, manager and display vs a reference table',
                 FUNCS + ['backends.libwayland_debug_output.parse:into_sink', 'core.connection_manager:ConnectionManager.message', 'core.wl.message:Message.__str__'],
                 'all well-formed histories of <= %d lines (exhaustive over the choices), untagged and tagged' % (6 if tier == 'quick' else 8), log_histories,
                 cases=[(k, tg) for k in ((3, 5, 6) if tier == 'quick' else (3, 5, 6, 7, 8)) for tg in (False, True)] + [(k, False, True) for k in ((5,) if tier == 'quick' else (5, 6, 7))])]
    if pid == 'C02':
        from harness import c15
        extra += [Ob('gdb-mode-attribution', 'symx', 'GDB mode (C15\'s event histories over the fake gdb): every message, on whatever connection address and thread it arrives, is displayed with the object it was attributed to, id + incarnation letter',
                     c15.FUNCS if hasattr(c15, 'FUNCS') else FUNCS, 'all sequences of <= 3 libwayland events over 2 addresses x 2 threads', c15.history, cases=[2, 3], stubs=['fake gdb module'])]
    obs = [Ob('object-table-step', 'symx', 'Inv /\\ one ConnectionImpl.message step => spec /\\ Inv (histories of any length by induction)',
              FUNCS, bounds, step, cases=cases, stubs=STUBS, outside=outside, budget_s=1500 if tier == 'quick' else 6000),
           Ob('object-table-step-reachable', 'symx', 'reachability twin of the step obligation', FUNCS, bounds, twin,
              cases=[(pid, 'other', ('new', 'obj'), 1, 2)], stubs=STUBS, expect_cex=True)] + extra
    return obs
