"""C03 -- object lifetimes: alive from creation to delete_id, never resurrected"""
from harness import objtable
LEVEL = 'model_checking'
EXPLANATION = ('Same inductive step as C02, asserting the lifetime half: alive flags, creation/destruction times, lifespan arithmetic (exact, integer '
               'times), destroyed_obj annotation only on wl_display.delete_id, implicit destruction of re-used server-range ids, no resurrection.')
ASSUMPTIONS = ['times are symbolic integers (floating-point rounding of displayed lifespans is C16/C17 territory)',
               'association-list mapping behaves like dict for int keys', 'well-formed histories']
def obligations(tier):
    return objtable.make_obligations('C03', tier)
