"""C03 -- object lifetimes: alive from creation to delete_id, never resurrected"""
from harness import objtable
LEVEL = 'model_checking'
MANIFEST = {'category': 'model_checking', 'engine': 'symx+z3',
 'technique': 'bounded symbolic execution of the real object-table code (symx proxies + z3): one inductive step, lifetime fields and exact integer time arithmetic',
 'text': 'Same step as C02 with the lifetime assertions: alive flags, creation/destruction times and lifespan arithmetic exact over symbolic integer times, destroyed_obj only on wl_display.delete_id, implicit destruction of re-used server ids at exactly id >= 0xff000000, no resurrection. Plus every well-formed history of <= 6 (quick) / 8 (thorough) log lines over ids 2, 3 and a server-range id (create as registry or callback, mention, delete_id, re-use; tagged and untagged) through the real decoder, line loop, manager and display against a reference table: labels, incarnation letters, destruction annotations, lifespans, alive flags, and the connection stays one connection.',
 'note': 'Trusted: as C02. Times are integers; the textual rendering of the lifespan is not part of this check.'}
EXPLANATION = ('Same inductive step as C02, asserting the lifetime half: alive flags, creation/destruction times, lifespan arithmetic (exact, integer '
               'times), destroyed_obj annotation only on wl_display.delete_id, implicit destruction of re-used server-range ids, no resurrection.')
ASSUMPTIONS = ['times are symbolic integers (floating-point rounding of displayed lifespans is C16/C17 territory)',
               'association-list mapping behaves like dict for int keys', 'well-formed histories']
def obligations(tier):
    return objtable.make_obligations('C03', tier)
