"""C14 -- displayed object and connection labels are unambiguous and work as matchers"""
from lib.runner import Ob
from lib import symx, ch

LEVEL = 'model_checking'
MANIFEST = {'category': 'model_checking', 'engine': 'crosshair+symx+z3',
 'technique': 'CrossHair (z3) on the real letter-id functions for all positions through four letters; symx execution of the matcher parsed from a displayed label on messages with symbolic ids/incarnations',
 'text': 'For every n < 26+26^2+26^3+26^4: label(n) converts back to n, distinct n give distinct labels, labels are 1-4 letters at their shortlex position, label(n+1) is the shortlex successor (no gaps, no repeats), capital labels are letter-for-letter the capitals of the lower-case ones; a displayed `id+letters` text parses to a matcher accepting exactly that (id, incarnation) among all pairs below 10^6. The matcher parsed from the label printed by the real code (`B: 7c`, `7c`, `B:`) evaluated on a message with symbolic target/argument/destroyed object ids and incarnations and any connection selects it iff the message is on, mentions, creates or destroys that very incarnation on that connection. From ANY position k < 20 000 LetterIdGenerator hands out label(k), label(k+1) (no reserved, skipped or repeated names).',
 'note': 'Trusted: CrossHair/z3 and its string model, lib/symx.py. Bounds: positions through four letters (475 254); ids < 10^5, incarnations < 702 for the textual round trip; labels from a pool of 4 (id, incarnation) pairs x 3 connection names for the matcher half; messages with <= 2 object arguments.'}
EXPLANATION = MANIFEST['text']
ASSUMPTIONS = ['CrossHair "Confirmed over all paths" is trusted together with the reachability twin', 'colour disabled while labels are produced']
FUNCS_L = ['core.letter_id_generator:number_to_letter_id', 'core.letter_id_generator:letter_id_to_number', 'core.letter_id_generator:LetterIdGenerator.next']
FUNCS_M = ['core.wl.object:ObjectBase.id_str', 'core.matcher:parse', 'core.matcher:_parse_obj_id_matcher', 'core.matcher:_parse_generation_matcher',
           'core.matcher:ObjectIdMatcher.matches', 'core.matcher:ConnectionMatcher.matches', 'core.matcher:MessagePattern.matches', 'core.matcher:ObjectArgValueMatcher.matches',
           'core.connection_manager:ConnectionManager.open_connection']


class _Conn:
    def __init__(self, name):
        self._n = name

    def name(self):
        return self._n


def label_matcher(ctx, case):
    """the label the real code prints for (connection ordinal, id, incarnation), used as a matcher text"""
    form, ord_, oid, gen = case[:4]
    max_args = case[4] if len(case) > 4 else 2
    import logging
    logging.disable(logging.CRITICAL)
    from core import wl, matcher, util
    from core.connection_manager import ConnectionManager
    saved_color = util.color_output
    util.color_output = False
    try:
        # the labels as displayed
        mgr = ConnectionManager()
        conns = [mgr.open_connection(0.0, 'c%d' % i, None) for i in range(ord_ + 1)]
        names = [c.name() for c in conns]
        ctx.check('connection names are distinct', len(set(names)) == len(names))
        cname = names[ord_]
        olabel = wl.object.MockObject(conns[ord_], 0.0, oid, gen, 'wl_x').id_str()
        ctx.check('label shape', olabel.startswith('@' + str(oid)))
        text = {'conn+obj': cname + ': ' + olabel[1:], 'obj': olabel[1:], 'conn': cname + ':', 'conn+obj.': cname + ': ' + olabel[1:] + '.'}[form]
        m = matcher.parse(text).simplify()
        # a message with symbolic structure
        which_conn = ctx.choose(['same', 'other', 'none'], 'conn')
        conn = {'same': conns[ord_], 'other': _Conn('ZZ' if cname != 'ZZ' else 'ZY'), 'none': None}[which_conn]
        def obj(tag, resolved=True):
            i = ctx.fresh_int(tag + '_id', 1, 2 ** 32)
            g = ctx.fresh_int(tag + '_gen', 0, 2 ** 20)
            return wl.object.MockObject(conn, 0.0, i, g, 'wl_x' if tag != 'a0' else None)
        tgt = obj('tgt')
        nargs = ctx.choose(list(range(max_args + 1)), 'nargs')
        args = []
        for k in range(nargs):
            kind = ctx.choose(['obj', 'new', 'int', 'nil'] if max_args < 2 else ['obj', 'new'], 'kind%d' % k)
            if kind == 'obj':
                args.append(wl.Arg.Object(obj('a%d' % k), False))
            elif kind == 'new':
                args.append(wl.Arg.Object(obj('a%d' % k), True))
            elif kind == 'int':
                args.append(wl.Arg.Int(ctx.fresh_int('a%d_val' % k, 0, 2 ** 32)))
            else:
                args.append(wl.Arg.Null('wl_x'))
        destroyed = obj('dead') if ctx.choose([False, True], 'destroys') else None
        msg = wl.message.MockMessage(0.0, tgt, True, 'some_msg', tuple(args), destroyed)
        real = m.matches(msg)
        if not isinstance(real, bool):
            real = bool(real)
        def is_it(o):
            return ctx.conj([o.id == oid, o.generation == gen])
        conn_ok = which_conn == 'same'
        if form == 'conn':
            ctx.check('`%s` selects exactly the messages of that connection' % text, real == conn_ok)
            return
        on = is_it(tgt)
        mention = [is_it(a.obj) for a in args if isinstance(a, wl.Arg.Object)]
        dead = [is_it(destroyed)] if destroyed is not None else []
        involved = [on] + (mention + dead if form != 'conn+obj.' else [])
        if form == 'conn+obj.':
            # `label.` = messages ON the object (creating/destroying messages are a documented don't-care for this form)
            if any(isinstance(a, wl.Arg.Object) and a.is_new for a in args) or destroyed is not None:
                return
        needs_conn = form != 'obj'
        if ctx.symbolic:
            z = symx.z3()
            anyf = z.Or(*[symx._b(x) if not isinstance(x, bool) else z.BoolVal(x) for x in involved])
            exp = z.And(z.BoolVal(conn_ok or not needs_conn), anyf)
            ctx.check('`%s` selects exactly the messages on / mentioning / creating / destroying that incarnation' % text, exp if real else z.Not(exp))
        else:
            exp = (conn_ok or not needs_conn) and any(bool(x) for x in involved)
            ctx.check('`%s` selects exactly the messages on / mentioning / creating / destroying that incarnation' % text, real == exp)
    finally:
        util.color_output = saved_color


def list_by_label(ctx, case):
    """`list B:` / `list B: 1a` return exactly the recorded messages of that connection / on that object, whatever was selected while they arrived"""
    from harness import ctl
    assign, sel_while = case
    w = ctl.make_world(ctx, 2)
    try:
        if sel_while is not None:
            w.ctl.process_command('connection ' + w.conns[sel_while].name())
        for k, ci in enumerate(assign):
            ctl.add_message(w, ci)     # (messages on objects that were never created carry no connection: ill-formed, outside)
        w.ctl.process_command('connection all')
        # the same labels may have been used in earlier commands of the session (filters accumulate; that must not leak into a later `list`)
        earlier = ctx.choose([None, 'filters', 'breakpoints', 'narrow-filter'], 'labels_used_before')
        if earlier == 'narrow-filter':
            # a filter that hides everything is in force: what `list <label>` returns is a matter of the label, not of the filter
            w.ctl.process_command('filter wl_zzz')
        elif earlier is not None:
            cmdname = 'filter ' if earlier == 'filters' else 'breakpoint '
            w.ctl.process_command(cmdname + 'wl_zzz')
            for ci in (1, 0):
                w.ctl.process_command(cmdname + w.conns[ci].name() + ':')
                w.ctl.process_command(cmdname + w.conns[ci].name() + ': 1a')
        for ci in (0, 1):
            name = w.conns[ci].name()
            k0 = len(w.out.items)
            w.ctl.process_command('list ' + name + ':')
            ctx.check('`list %s:` shows exactly the messages of connection %s' % (name, name), ctl.msg_lines(w.out.items[k0:]) == [m.tag for m, c in w.msgs if c == ci])
            k0 = len(w.out.items)
            w.ctl.process_command('list ' + name + ': 1a')
            ctx.check('`list %s: 1a` shows exactly the messages on that connection\'s display object' % name,
                      ctl.msg_lines(w.out.items[k0:]) == [m.tag for m, c in w.msgs if c == ci and m.obj.resolved() and m.obj.id == 1])
    finally:
        ctl.restore_show()


def twin(ctx, case):
    label_matcher(ctx, case)
    ctx.check('reachability twin (must be violated)', False)


def obligations(tier):
    T = 60 if tier == 'quick' else 240
    b4 = 'all n < 475 254 (every label of one to four letters), both cases where stated'
    obs = [
        ch.ob('round-trip', 'harness.ch_c14', 'round_trip_lower', 'letter_id_to_number(number_to_letter_id(n)) == n', FUNCS_L, b4, T),
        ch.ob('injective', 'harness.ch_c14', 'injective', 'a < b => label(a) != label(b), both cases', FUNCS_L, b4, T),
        ch.ob('shape-and-position', 'harness.ch_c14', 'shape', 'labels are 1-4 letters of the right case at their shortlex position', FUNCS_L, b4, T),
        ch.ob('successor', 'harness.ch_c14', 'successor', 'label(n+1) is the shortlex successor of label(n): no gaps, no repeats', FUNCS_L, b4, T),
        ch.ob('caps-relation', 'harness.ch_c14', 'caps_relation', 'connection names are letter for letter the capitals of the object suffixes', FUNCS_L, b4, T),
        ch.ob('generator', 'harness.ch_c14', 'generator_sequence', 'the k-th name handed out by LetterIdGenerator is label(k)', FUNCS_L, 'k < 40', T),
        ch.ob('generator-positions', 'harness.ch_c14', 'generator_positions', 'from ANY position k the generator hands out label(k), label(k+1): no reserved / skipped / repeated names', FUNCS_L, 'k < 20 000 (all names of up to three letters and beyond)', T),
        ch.ob('label-parses-back', 'harness.ch_c14', 'label_parses_back', 'str(id)+label(gen) parses to a matcher accepting exactly (id, gen)', FUNCS_L + FUNCS_M[2:4],
              'id < 10^5, gen < 702, compared against all pairs below 10^6', T),
        ch.ob('round-trip-reachable', 'harness.ch_c14', 'twin_round_trip', 'reachability twin', FUNCS_L, b4, T, expect_cex=True),
    ]
    pool = [(0, 7, 2), (1, 7, 0), (2, 12, 27), (27, 4278190080, 1), (300, 5000, 300)] if tier == 'quick' else [(0, 7, 2), (1, 7, 0), (2, 12, 27), (27, 4278190080, 1), (3, 1, 0), (30, 99, 702), (300, 5000, 300), (70000, 70000, 70000)]
    cases = [(form, o, i, g, 1) for form in ('conn+obj', 'obj', 'conn', 'conn+obj.') for (o, i, g) in pool]
    cases += [(form, o, i, g, 2) for form in ('conn+obj', 'obj') for (o, i, g) in (pool[:1] if tier == 'quick' else pool)]
    obs.append(Ob('label-as-matcher', 'symx', 'the matcher parsed from a displayed label selects exactly the messages involving that incarnation / that connection', FUNCS_M,
                  'labels: %d (connection ordinal, id, incarnation) triples x 4 forms; message: target + <= 2 arguments + destroyed object with symbolic ids in [1,2^32) and incarnations in [0,2^20), connection same/other/none' % len(pool),
                  label_matcher, cases=cases, outside='unresolved objects (incarnation unknown)'))
    from harness import c04
    obs.append(Ob('connection-names-unique', 'symx', 'over every open/close/message history on the connection-id interface names are A, B, C.. in creation order and never repeat (closed connections keep theirs)',
                  FUNCS_M[-1:] + FUNCS_L[2:], 'all sequences of <= %d operations over 3 connection ids' % (4 if tier != 'quick' else 3), c04.lifecycle, cases=[2, 3] if tier == 'quick' else [2, 3, 4]))
    from harness import objtable
    obs.append(Ob('labels-distinct-over-histories', 'symx', 'one object-table step from an arbitrary valid table (C02\'s obligation): incarnation index = creation order, so no two objects of a connection share id+letters',
                  objtable.FUNCS, 'ids symbolic incl. the server-range boundary; the C02 step restricted to messages that create objects', objtable.step,
                  cases=[('C02', 'other', ('new',), 2, 2), ('C02', 'other', ('new', 'new'), 1, 2), ('C02', 'other', ('new', 'obj'), 1, 2), ('C02', 'delete_id', ('int', 'new'), 1, 2)], stubs=objtable.STUBS))
    obs.append(Ob('merged-untagged-connections', 'symx', 'a stream in which ids are requested again while their holders are alive (two connections logged without tags): no label ever names two objects',
                  objtable.FUNCS + ['backends.libwayland_debug_output.parse:into_sink'], 'registry, bind, create_surface, then every stream of <= %d further lines from the same pool of 5' % (3 if tier == 'quick' else 4),
                  objtable.merged_streams, cases=[4, 5, 6] if tier == 'quick' else [4, 5, 6, 7]))
    obs.append(Ob('long-reuse-labels', 'symx', 'an id handed out up to 703 times: labels a..z, aa.. without repeats', objtable.FUNCS, '27..703 creations', objtable.long_reuse, cases=[(28, True), (703, False)]))
    obs.append(Ob('list-by-label', 'symx', 'listing by displayed connection name / object label over recorded histories (also recorded while another connection was selected)', FUNCS_M + ['frontends.tui.controller:Controller.list_command'],
                  '4 histories x selection none/A/B while recording', list_by_label, cases=[(a, s) for a in [(0, 1), (0, 1, 1, 0), (1, 1, 0, 0, 1, 0)] for s in (None, 0, 1)]))
    obs.append(Ob('label-as-matcher-reachable', 'symx', 'reachability twin', FUNCS_M, '', twin, cases=[('conn+obj', 1, 7, 0)], expect_cex=True))
    return obs
