"""C16 -- displayed times are the log's times relative to the first message"""
import types, time
from lib.runner import Ob
from lib import symx
from harness import ctl

LEVEL = 'model_checking'
MANIFEST = {'category': 'model_checking', 'engine': 'symx+z3',
 'technique': 'the real parse.message / Message.__init__ / Controller._show_message executed on proxy doubles (each IEEE operation modelled as the exact real result times (1+d), |d| <= 2^-53, a sound over-approximation of round-to-nearest in the normal range) with symbolic integer microsecond counts; z3 decides accuracy, shift invariance and the separator threshold; symx over the last-shown state machine with symbolic filter verdicts',
 'text': 'For all logs times A (this message), B (first message), P (previously shown message), shift C, each an integer number of microseconds below 2^32 (libwayland prints an unsigned 32-bit microsecond counter as ms with three decimals): |shown - (A-B)/10^6| <= 10^-9 s, hence a constant shift changes the 4-decimal rendering by at most one unit of the last digit; the separator is printed whenever the gap is >= 1 s + 1 us and never when it is <= 1 s - 1 us (exactly 1.000 s is a don\'t-care: doubles go both ways there). The gap is taken between consecutively SHOWN messages: for every filter verdict vector over <= 4 live messages with gaps from a pool and an optional listing in between, separators appear exactly between consecutive shown lines more than a second apart; a listing starts without separator. The gap state machine runs over two connections interleaved in any way; time-stamp texts go through the real line loop in either order (times that decrease included).',
 'note': 'Trusted: z3 (nonlinear real arithmetic), the relative-error model of IEEE double (no overflow/underflow in the stated range), Python\'s correctly rounded float(str). str.format is outside (C library): only its argument is reasoned about.'}
EXPLANATION = MANIFEST['text']
ASSUMPTIONS = ['IEEE-754 binary64 round-to-nearest; relative error model valid in the normal range (times < 2^32 us)', 'float(text) is correctly rounded', 'timestamp text denotes an integer number of microseconds (libwayland prints %u.%03u ms)']
FUNCS = ['backends.libwayland_debug_output.parse:message', 'core.wl.message:Message.__init__', 'frontends.tui.controller:Controller._show_message',
         'frontends.tui.controller:Controller.show_messages', 'frontends.tui.controller:Controller.connection_got_new_message']


def _real_env():
    z3 = symx.z3()
    EPS = z3.Q(1, 2 ** 53)

    class RCtx:
        def __init__(self):
            self.cons = []
            self.s = self
            self.n = 0

        def add(self, *cs):
            self.cons += list(cs)

        def fresh(self, *extra):
            # a fresh (non-incremental) solver per query: z3 then uses its nonlinear real tactic
            s = z3.Solver()
            s.set('timeout', 120000)
            s.add(*self.cons)
            s.add(*extra)
            return s

        def delta(self):
            self.n += 1
            d = z3.Real('d%d' % self.n)
            self.s.add(d >= -EPS, d <= EPS)
            return d
    R = RCtx()

    class SCond:
        def __init__(self, e): self.e = e
        def __bool__(self): raise symx.Unsupported('decision on a proxy double outside the harness')

    class SReal:
        def __init__(self, e): self.e = e
        @staticmethod
        def lift(x):
            if isinstance(x, SReal): return x.e
            if isinstance(x, float):
                import fractions
                fr = fractions.Fraction(x)
                return z3.RealVal(fr.numerator) / z3.RealVal(fr.denominator)
            return z3.RealVal(x)
        def _op(self, o, f): return SReal(f(self.e, SReal.lift(o)) * (1 + R.delta()))
        def __truediv__(self, o): return self._op(o, lambda a, b: a / b)
        def __sub__(self, o): return self._op(o, lambda a, b: a - b)
        def __rsub__(self, o): return SReal((SReal.lift(o) - self.e) * (1 + R.delta()))
        def __add__(self, o): return self._op(o, lambda a, b: a + b)
        def __abs__(self): return SReal(z3.If(self.e >= 0, self.e, -self.e))
        def __neg__(self): return SReal(-self.e)
        def __gt__(self, o): return SCond(self.e > SReal.lift(o))
        def __ge__(self, o): return SCond(self.e >= SReal.lift(o))
        def __lt__(self, o): return SCond(self.e < SReal.lift(o))
        def __format__(self, spec): return '<real>'
        def __bool__(self):
            # truthiness of a double (`if not x:`): decided by the solver when the case fixes it, otherwise the harness must split the case
            zero = str(R.fresh(self.e == 0).check())
            nonzero = str(R.fresh(self.e != 0).check())
            if zero == 'sat' and nonzero == 'unsat':
                return False
            if zero == 'unsat' and nonzero == 'sat':
                return True
            raise symx.Unsupported('truthiness of a symbolic double that may or may not be zero')

    class SText:
        """the captured time-stamp text: denotes exactly A/1000 ms (A an integer number of microseconds), with '.' or ','"""
        def __init__(self, A): self.A = A; self.replaced = []
        def replace(self, a, b):
            t = SText(self.A); t.replaced = self.replaced + [(a, b)]
            return t

    def sym_float(x):
        if isinstance(x, SText):
            return SReal(z3.ToReal(x.A) / 1000 * (1 + R.delta()))      # correctly rounded decimal -> double
        return float(x)
    return z3, R, SReal, SCond, SText, sym_float


def _run_message(parse, ts, sym_float):
    class FakeMatch:
        def group(self, k): return {'timestamp': ts, 'conn': None, 'type': 'wl_display', 'id': '1', 'message': 'sync', 'args': ''}[k]
        def start(self, *a): return 0
    class FakeRe:
        def search(self, raw): return FakeMatch()
    class NoRe:
        def search(self, raw): return None
    class FakePatterns:
        out_msg_re = FakeRe(); in_msg_re = NoRe(); arg_re = parse.WlPatterns().arg_re
    class WP:
        instance = None
        @staticmethod
        def lazy_get_instance(): return FakePatterns()
    g = dict(parse.message.__globals__)
    g['float'] = sym_float
    g['WlPatterns'] = WP
    f = types.FunctionType(parse.message.__code__, g, 'message')
    return f('ignored')


def arithmetic(case):
    from backends.libwayland_debug_output import parse
    from core import wl
    from frontends.tui.controller import Controller
    t0 = time.time()
    z3, R, SReal, SCond, SText, sym_float = _real_env()
    A, B, P, C = z3.Ints('A B P C')
    if case == 'zero-base':
        B = z3.IntVal(0)          # a log whose first time stamp is exactly 0.000
        R.s.add(P >= 1, A >= P, A < 2 ** 32, C == 0)
    elif case == 'shift':
        R.s.add(B >= 1, A >= B, P == B, C >= 0, A + C < 2 ** 32)
    else:
        R.s.add(B >= 1, P >= B, A >= P, A < 2 ** 32, C == 0)      # B = 0 is the separate case zero-base
    saved = wl.Message.base_time
    res = {'paths': 0, 'queries': 0, 'checks': 0, 'samples': []}
    try:
        wl.Message.base_time = None
        _, m0 = _run_message(parse, SText(B), sym_float)
        _, mp = _run_message(parse, SText(P), sym_float)
        _, ma = _run_message(parse, SText(A), sym_float)
        if case == 'shift':
            wl.Message.base_time = None
            _, s0 = _run_message(parse, SText(B + C), sym_float)
            _, sa = _run_message(parse, SText(A + C), sym_float)
        if not isinstance(ma.timestamp, SReal):
            return {'status': 'error', 'detail': 'message() did not route the time stamp through float(); harness needs updating'}
        shown = ma.timestamp.e
        exact = z3.ToReal(A - B) / 1000000
        # the real comparison of Controller._show_message, executed on the proxies
        class Out:
            def show(self, *a): pass
        class _FC:
            last_shown_timestamp = mp.timestamp
            out = Out()
        FakeCtl = _FC()
        decided = []
        class _M:
            timestamp = ma.timestamp
            def show(self, out): pass
        Msg = _M()
        cond = None
        try:
            Controller._show_message(FakeCtl, Msg)
        except symx.Unsupported:
            pass
        # recover the condition the code branched on: re-run with a recording SCond
        rec = []
        SCond.__bool__ = lambda self: (rec.append(self.e), True)[1]
        FakeCtl.last_shown_timestamp = mp.timestamp
        Controller._show_message(FakeCtl, Msg)
        if len(rec) != 1:
            return {'status': 'error', 'detail': '_show_message is expected to make exactly one comparison on the gap (got %d)' % len(rec)}
        cond = rec[0]
        if case == 'shift':
            queries = [('shift invariance: the log shifted by C still shows within 1e-9 s of (A-B)/1e6 (so both renderings are within 2e-9 s of each other)',
                        [z3.Or(sa.timestamp.e - exact > z3.Q(1, 10 ** 9), exact - sa.timestamp.e > z3.Q(1, 10 ** 9))], 'shift')]
        else:
          queries = [
            ('accuracy: |shown - (A-B)/1e6| > 1e-9 s', [z3.Or(shown - exact > z3.Q(1, 10 ** 9), exact - shown > z3.Q(1, 10 ** 9))], 'acc'),
            ('gap >= 1 s + 1 us but no separator', [A - P >= 1000001, z3.Not(cond)], 'sep_missing'),
            ('gap <= 1 s - 1 us but separator', [A - P <= 999999, cond], 'sep_bogus'),
            ('first message is shown at time 0 exactly', [m0.timestamp.e != 0], 'zero'),
        ]
        for name, cons, tag in queries:
            sv = R.fresh(*cons)
            t = time.time()
            r = str(sv.check())
            res['queries'] += 1
            res['paths'] += 1
            if r == 'sat':
                m = sv.model()
                cex = {k: (m.eval(v, model_completion=True).as_long() if not isinstance(v, int) else v) for k, v in (('A', A), ('B', B), ('P', P), ('C', C))}
                cex['query'] = tag
                res.update(status='cex', failed=name, cex=cex)
                return res
            if r != 'unsat':
                res.update(status='unknown', detail='%s: %s' % (name, sv.reason_unknown()))
                return res
            res['checks'] += 1
            res['samples'].append({'query': name, 'answer': 'unsat', 'seconds': round(time.time() - t, 2)})
        # vacuity: the assumptions are satisfiable and both separator outcomes are reachable
        for cons in ([cond], [z3.Not(cond)]):
            if str(R.fresh(*cons).check()) != 'sat':
                res.update(status='error', detail='vacuous: a separator outcome is unreachable')
                return res
        res['status'] = 'ok'
        res['solver_s'] = time.time() - t0
        return res
    finally:
        wl.Message.base_time = saved


def _stamp(us):
    return '%d.%03d' % (us // 1000000 * 1000 + (us // 1000) % 1000, us % 1000) if False else '%d.%03d' % (us // 1000, us % 1000)


def replay_arith(case, cex):
    """concrete doubles: decode three real lines and look at what the real controller prints"""
    from backends.libwayland_debug_output import parse
    from core import wl, matcher
    from core.connection_manager import ConnectionManager
    from core.output import Output
    from frontends.tui.controller import Controller
    from lib.stubs import RecStream
    A, B, P, C = cex['A'], cex['B'], cex['P'], cex['C']
    def run(times):
        wl.Message.base_time = None
        out = RecStream()
        mgr = ConnectionManager()
        Controller(Output(False, True, out, RecStream()), mgr, matcher.always, matcher.never)
        ms = []
        for i, t in enumerate(times):
            cid, m = parse.message('[%s] wl_display@1.sync()' % _stamp(t).replace('.', ',' if i % 2 else '.'))
            if i == 0:
                mgr.open_connection(0.0, cid, None)
            mgr.message(cid, m)
            ms.append(m)
        return ms, out.items
    ms, items = run([B, P, A])
    q = cex['query']
    text = 'A=%d us, B=%d us, P=%d us, C=%d us: ' % (A, B, P, C)
    if q == 'acc':
        return abs(ms[2].timestamp - (A - B) / 1e6) > 1e-9, text + 'shown %r vs exact %r' % (ms[2].timestamp, (A - B) / 1e6)
    if q == 'zero':
        return ms[0].timestamp != 0, text + 'first message shown at %r' % ms[0].timestamp
    if q == 'shift':
        ms2, _ = run([B + C, P + C, A + C])
        return abs(ms2[2].timestamp - ms[2].timestamp) > 2e-9, text + 'shown %r vs shifted %r' % (ms[2].timestamp, ms2[2].timestamp)
    seps = [i for i, s in enumerate(items) if '├' in s]
    last_sep = any('├' in s for s in items[-2:-1])
    if q == 'sep_missing':
        return not last_sep, text + 'items: %r' % items[-3:]
    return last_sep, text + 'items: %r' % items[-3:]


def stamp_texts(ctx, case):
    """the TEXT of the time stamp as libwayland prints it (padding, both decimal marks, small and large values) through the real decoder AND
    the real line loop (into_sink): shown time = (this - first) within 1e-9 s, whether times increase or not (the stamps of several processes
    writing to one log are not ordered)"""
    import logging, io
    logging.disable(logging.CRITICAL)
    from backends.libwayland_debug_output import parse
    from core import wl
    from core.output import Output
    from lib.stubs import RecStream
    us = [0, 1, 999, 1000, 12345, 99999, 100000, 100001, 999999, 1000000, 1000001, 123456789, 4294967295]
    first = ctx.choose(us, 'first')
    this = ctx.choose(us, 'this')
    third = ctx.choose([0, 1000001, 4294967295], 'third')
    mark = ctx.choose(['.', ','], 'mark')
    style = ctx.choose(['%d.%03d', '%7d.%03d', '%6d.%03d'], 'padding')
    # what a log collector puts in front of the program's line (journalctl -o short-monotonic, dmesg-style uptime, a console prefix): another
    # bracketed clock. The message's time is the one libwayland printed, right in front of the message
    prefix = ctx.choose(['', '[  812.404163] ', 'Jan 01 12:00:01 host prog[4123]: ', '[7.5] [info] '], 'collector_prefix')
    only_on = ctx.choose(['all lines', 'not the first line'], 'prefixed') if prefix else 'all lines'
    def line(u, k=1):
        return (prefix if (k > 0 or only_on == 'all lines') else '') + ('[' + style % (u // 1000, u % 1000) + '] wl_display@1.sync()').replace('.', mark, 1)
    wl.Message.base_time = None
    got = []

    class Sink:
        def open_connection(self, time, cid, is_server): pass
        def close_connection(self, time, cid): pass
        def message(self, cid, m): got.append(m)
    parse.into_sink(io.StringIO(''.join(line(u, k) + chr(10) for k, u in enumerate((first, this, third)))), Output(False, True, RecStream(), RecStream()), Sink())
    ctx.check('three lines, three messages', len(got) == 3)
    if len(got) == 3:
        ctx.check('first message is shown at 0', got[0].timestamp == 0)
        ctx.check('shown time of `%s` after `%s` is (this - first) seconds' % (line(this)[:16], line(first)[:16]), abs(got[1].timestamp - (this - first) / 1e6) <= 1e-9)
        ctx.check('shown time of the third line `%s` is (third - first) seconds' % line(third)[:16], abs(got[2].timestamp - (third - first) / 1e6) <= 1e-9)
        # and what is DISPLAYED for it: the leading number of the message line (sign included), to the last digit shown
        from core import util
        util.color_output = False
        for m, u in zip(got, (first, this, third)):
            o = RecStream()
            m.show(Output(False, True, o, RecStream()))
            head = o.items[0].split(':')[0].split()[0] if o.items else ''
            try:
                shown_value = float(head)
            except ValueError:
                shown_value = None
            ctx.check('the number displayed in front of the message is (log time - first log time) seconds, sign included, within the last digit shown (%s vs %.6f)' % (head, (u - first) / 1e6),
                      shown_value is not None and abs(shown_value - (u - first) / 1e6) <= 0.000051)


def last_shown(ctx, case):
    """separators appear exactly between consecutively SHOWN messages more than a second apart"""
    gaps, listing_at = case
    from core import matcher
    w = ctl.make_world(ctx, 2, display=matcher.never)
    try:
        F = ctl.SymLeaf(ctx, 'filter')
        w.ctl.display_matcher = F
        # a breakpoint matcher may be set as well: its `Stopped at` notices do not interrupt the sequence of shown messages
        w.ctl.stop_matcher = ctl.SymLeaf(ctx, 'break')
        t = 10.0
        n0 = len(w.out.items)
        events = []     # ('live', msg) / ('list',)
        for i, g in enumerate(gaps):
            t += g
            if listing_at == i:
                L = ctl.SymLeaf(ctx, 'listed')
                k0 = len(w.out.items)
                w.ctl.show_messages(None, L, None)
                events.append(('list', L, list(w.out.items[k0:])))
            # the lines of two connections may be interleaved in any way, and a target may be an object created before the log began
            m = ctl.add_message(w, 0 if i == 0 else ctx.choose([0, 1], 'conn%d' % i), t=t, target_id=1 if i != 1 else ctx.choose([1, 9], 'target%d' % i))
            events.append(('live', m))
        items = w.out.items[n0:]
        # walk the output: sequence of ('sep', gap text) / ('msg', tag)
        seq = []
        for s in items:
            if s.startswith(ctl.MSG_PREFIX):
                seq.append(('msg', int(s[len(ctl.MSG_PREFIX):])))
            elif '├' in s:
                seq.append(('sep', s))
            elif s.startswith('Messages that match'):
                seq.append(('list-start', None))
            elif s.startswith('(') or '╰' in s:
                seq.append(('list-end', None))
        times = {m.tag: m.timestamp for m, _ in w.msgs}
        prev = None
        in_list = False
        pending_sep = None
        dontcare = False
        for kind, v in seq:
            if kind == 'list-start':
                in_list, prev, dontcare = True, None, False
                ctx.check('no dangling separator before a listing', pending_sep is None)
            elif kind == 'list-end':
                in_list = False
                prev = None
                dontcare = True         # the first live line after a listing: not covered by the statement
                ctx.check('no dangling separator at the end of a listing', pending_sep is None)
            elif kind == 'sep':
                ctx.check('at most one separator between two lines', pending_sep is None)
                pending_sep = v
            else:
                if prev is None:
                    if not dontcare:
                        ctx.check('no separator before the first line shown (live view / listing)', pending_sep is None)
                else:
                    gap = times[v] - times[prev]
                    if abs(gap - 1.0) > 1e-6:
                        ctx.check('separator iff the gap to the previously SHOWN line exceeds one second (gap %.3f)' % gap, (pending_sep is not None) == (gap > 1.0))
                    if pending_sep is not None:
                        ctx.check('the separator gives the gap', ('%0.4fs' % gap) in pending_sep)
                prev = v
                pending_sep = None
                dontcare = False
        ctx.check('no separator after the last line', pending_sep is None)
    finally:
        ctl.restore_show()


def twin(ctx, case):
    last_shown(ctx, case)
    ctx.check('reachability twin (must be violated)', False)


def obligations(tier):
    import itertools
    pool = [0.25, 0.75, 1.5, 3.0]
    n = 3 if tier == 'quick' else 4
    cases = []
    for k in range(1, n + 1):
        for gaps in itertools.product(pool, repeat=k):
            for la in [None] + list(range(1, k)):
                if tier == 'quick' and la is not None and k == n and gaps[0] != 0.75:
                    continue
                cases.append((gaps, la))
    return [
        Ob('time-arithmetic', 'smt', 'accuracy, shift invariance, separator threshold on the real message()/Message.__init__/_show_message with proxy doubles', FUNCS[:3],
           'A, B, P, C integer microsecond counts below 2^32 us (the range of libwayland\'s counter)', arithmetic, cases=['base', 'shift', 'zero-base'], replay=replay_arith,
           stubs=['float() re-bound in a copy of parse.message to the symbolic conversion', 'WlPatterns replaced by a fake whose timestamp group denotes A/1000 exactly'],
           outside='gaps of exactly 1.000000 s +- 1 us; str.format'),
        Ob('stamp-texts', 'symx', 'time stamp texts as libwayland prints them (space padding, `.` or `,`, values from 0.000 to the top of the counter) through the real decoder', FUNCS[:2],
           '13 boundary values x 13 (in either order) x 3 third values x 2 decimal marks x 3 paddings (exhaustive pool), through into_sink', stamp_texts, cases=[None]),
        Ob('shown-gap-state-machine', 'symx', 'the gap is between consecutively shown messages: live view with symbolic filter verdicts, optional listing in between', FUNCS[2:],
           '<= %d live messages on two connections interleaved in any way, gaps from %r, optional listing at any position, verdicts symbolic' % (n, pool), last_shown, cases=cases, stubs=['abstract leaves', 'Message.show stubbed']),
        Ob('shown-gap-state-machine-reachable', 'symx', 'reachability twin', FUNCS[2:], '', twin, cases=[((0.75, 1.5), 1)], expect_cex=True),
    ]
