"""C13 -- file, pipe and run modes show the same thing; run mode is transparent (the part that lives in Python)"""
from lib.runner import Ob
from lib import symx
from lib.stubs import RecStream

LEVEL = 'other'
MANIFEST = {'category': 'other', 'engine': 'symx+z3',
 'technique': 'symbolic execution of the real main.main / file_input_main / piped_input_main / run_program / _Subprocess.run over a sequentialised environment model (fake subprocess, thread, pipe, text stream): the stream, the chunking of the child\'s writes, the point at which the child runs, the exit status (symbolic integer) and the program\'s argument words (opaque tokens) are explored',
 'text': 'For every stream of <= 3 lines (quick) / 4 (thorough) from a pool (messages on two tagged connections, chatter, blank, final line without newline), every chunking of the child\'s writes (whole lines or split mid-line), every modelled schedule (child runs to completion before the parent reads / when the parent first blocks / one chunk per blocking read; the child closing its stderr at exit or long before it exits, where `long` means longer than any join timeout), both --supress settings: file, pipe and run mode produce identical out and err items; the child is started exactly once with its argument words verbatim (identical objects, words spelled like our own options included), an environment that is the parent\'s plus WAYLAND_DEBUG=1 and the library directory prepended to LD_LIBRARY_PATH, stderr = the pipe\'s write end and no stdout/stdin redirection; every line the child wrote is shown before the first prompt; main exits with the child\'s status for every status in 0..255 (symbolic). A breakpoint matcher may be set: the `Stopped at` notices are part of the display compared across modes. main.py executed as __main__: the program\'s own words change nothing wayland-debug itself logs or shows.',
 'note': 'A sequentialised model, stated as such: real byte chunking by the kernel, TextIOWrapper line reassembly, real thread scheduling around join(timeout=1) and real exit statuses are kernel / C library behaviour and are NOT decided here. Trusted: the environment stubs in this file, lib/symx.py.'}
EXPLANATION = MANIFEST['text']
ASSUMPTIONS = ['FakeTextIO.readline returns complete lines, a final fragment at EOF, and blocks while the write end is open (what io.TextIOWrapper over a pipe does)',
               'the child closes its end of the pipe when it exits; the parent\'s copy is closed by _Subprocess.run', 'protocol.load_all stubbed (not the subject)']
FUNCS = ['main:main', 'main:file_input_main', 'main:piped_input_main', 'backends.libwayland_debug_output.runner:run_program', 'backends.libwayland_debug_output.runner:_Subprocess.run',
         'backends.libwayland_debug_output.parse:into_sink', 'frontends.tui.terminal_ui:TerminalUI.run_until_stopped']

POOL = ['[1000.100] <1>  -> wl_display#1.get_registry(new id wl_registry#2)', '[1000.200] <2> wl_display#1.get_registry(new id wl_registry#2)', 'program chatter',
        '', '[1000.300] <1>  -> wl_display#1.sync(new id wl_callback#3)', '   indented  ',
        'form\x0cfeed \x1c and \u2028 separators \x85 inside a line', '[1000.400] <2> wl_display#1.error(wl_display#1, 1, "a\x0bb\u2029c")',
        # two threads of the program writing at once: a bind cut in two by another message (the decoder trips over it; the program goes on writing)
        '[1000.500] <1>  -> wl_registry#2.bind(1, "wl_x", [1000.501] <1> wl_display#1.delete_id(3)']


class Deadlock(Exception):
    pass


class Pipe:
    def __init__(self):
        self.buf = ''
        self.write_open = True
        self.on_block = None      # scheduler hook: called when the reader would block

    def write(self, s):
        assert self.write_open
        self.buf += s


class Worker:
    """the helper thread of run mode as a real thread that runs only while the parent waits for it (strict baton passing), so
    that every interleaving is a deterministic, replayable schedule"""

    def __init__(self):
        import threading
        self.to_worker = threading.Semaphore(0)
        self.to_main = threading.Semaphore(0)
        self.finished = False
        self.started = False
        self.at = None
        self.target = None
        self.error = None
        self.thread = None
        self.killed = False

    def start(self):
        import threading
        self.started = True
        self.thread = threading.Thread(target=self._body, daemon=True)
        self.thread.start()

    def _body(self):
        self.to_worker.acquire()
        try:
            if not self.killed:
                self.target()
        except BaseException as e:
            self.error = e
        self.finished = True
        self.at = 'finished'
        self.to_main.release()

    def pause(self, where):
        """called on the worker: hand the baton back to the parent"""
        if self.killed:
            return
        self.at = where
        self.to_main.release()
        self.to_worker.acquire()

    def resume(self, reason=''):
        """called on the parent: let the worker run until it pauses or finishes; False if it cannot make progress"""
        if not self.started or self.finished:
            return False
        self.to_worker.release()
        if not self.to_main.acquire(timeout=20):
            raise Deadlock('the helper thread did not come back')
        if self.error is not None:
            e, self.error = self.error, None
            raise e
        return True

    def shutdown(self):
        self.killed = True
        n = 0
        while self.started and not self.finished and n < 50:
            n += 1
            self.to_worker.release()
            self.to_main.acquire(timeout=5)


class FakeTextIO:
    def __init__(self, pipe=None, text=None, kind='pipe'):
        self.kind = kind
        self.pipe = pipe if pipe is not None else Pipe()
        if text is not None:
            self.pipe.buf = text
            self.pipe.write_open = False
        self.closed = False

    def readline(self, size=-1):
        p = self.pipe
        while True:
            i = p.buf.find('\n')
            if i >= 0:
                line, p.buf = p.buf[:i + 1], p.buf[i + 1:]
                return line
            if not p.write_open:
                line, p.buf = p.buf, ''
                return line
            if p.on_block is None or not p.on_block():
                raise Deadlock('the reader blocks forever: nothing will ever write to or close the pipe')

    early_closes = []      # read ends closed while the writer could still write / with data unread (reset by the harness per run)

    def close(self):
        if not self.closed and self.kind == 'pipe' and (self.pipe.write_open or self.pipe.buf):
            FakeTextIO.early_closes.append('write end still open' if self.pipe.write_open else 'unread data')
        self.closed = True

    # the rest of the text-file interface, with the semantics of io.TextIOWrapper (universal newlines: only \\n ends a line)
    def seekable(self):
        return self.kind == 'file'

    def readable(self):
        return True

    def isatty(self):
        return False

    def read(self, size=-1):
        out = ''
        while True:
            l = self.readline()
            if l == '':
                return out
            out += l

    def readlines(self, hint=-1):
        out = []
        while True:
            l = self.readline()
            if l == '':
                return out
            out.append(l)

    def __iter__(self):
        return self

    def __next__(self):
        l = self.readline()
        if l == '':
            raise StopIteration
        return l

    def fileno(self):
        return 1001

    def __enter__(self):
        return self

    def __exit__(self, *a):
        self.close()


def _expected_env(base, libdir):
    env = dict(base)
    env['LD_LIBRARY_PATH'] = ':'.join(filter(None, [libdir, base.get('LD_LIBRARY_PATH', '')]))
    env['WAYLAND_DEBUG'] = '1'
    return env


def modes(ctx, case):
    import logging, importlib
    logging.disable(logging.CRITICAL)
    from core import wl, matcher, util
    from frontends.tui.arguments import Arguments, Mode
    from core.output import Output
    n, first, part = case[:3]       # part: 'stream' (stream x chunking x schedule) | 'child' (environment, argument words, exit status)
    util.color_output = False
    main = importlib.import_module('main')
    runner = importlib.import_module('backends.libwayland_debug_output.runner')
    idx = ([first] if n else []) + [ctx.choose(list(range(len(POOL))), 'line%d' % k) for k in range(1, n)]
    # well-formed per connection: get_registry of a connection at most once; sync needs conn 1's registry... (ids are created once)
    seen = set()
    for i in idx:
        if POOL[i].startswith('['):
            key = POOL[i][11:] if False else POOL[i].split('] ', 1)[1]
            if key in seen:
                ctx.assume(False)
            seen.add(key)
    last_nl = ctx.choose([True, False], 'last_newline') if n and part == 'stream' else True
    text = ''.join(POOL[i] + '\n' for i in idx)
    if n and not last_nl:
        text = text[:-1]
        if POOL[idx[-1]] == '':
            ctx.assume(False)
    supress = ctx.choose([False, True], 'supress') if part == 'stream' else False
    libdir = ctx.choose([None, '/opt/wl/lib'], 'libdir') if part == 'child' else '/opt/wl/lib'
    base_env = ctx.choose([{'PATH': '/bin', 'HOME': '/h'}, {'PATH': '/bin', 'LD_LIBRARY_PATH': '/usr/lib/x', 'WAYLAND_DEBUG': 'server'}], 'env') if part == 'child' else {'PATH': '/bin'}
    status = ctx.fresh_int('status', 0, 256)
    if part == 'child':
        shape = ctx.choose(['three', 'one', 'one-with-spaces', 'two-with-quotes'], 'argv_shape')
        if shape == 'three':
            words = [symx_tok('prog')] + [ctx.choose([symx_tok('w%d' % k), '-r', '-g', '--supress', '-l', '--', ''], 'word%d' % k) for k in range(2)]
        elif shape == 'one':
            words = [symx_tok('prog')]
        elif shape == 'one-with-spaces':
            words = [symx_tok('/opt/my programs/the prog')]
        else:
            words = [symx_tok('prog'), symx_tok('say "hi" it\'s; $(x) `y`')]
    else:
        words = [symx_tok('prog'), '-g', symx_tok('w')]

    # a breakpoint matcher (-b): the `Stopped at` notice is part of what is displayed, in every mode
    stop_text = ctx.choose([None, '.get_registry', '*'], 'breakpoint') if part == 'child' else [None, None, '.sync', '*'][(n + first) % 4]
    stop_matcher = matcher.never if stop_text is None else matcher.parse(stop_text).simplify()
    via_cli = ctx.choose([False, True], 'via_command_line') if part == 'child' else False
    # what the user types at the prompt that follows the end of the program (run mode): slips included - a mistyped command, just Enter, a matcher
    # that does not parse, a connection that does not exist. wayland-debug reports them; they are not the program's business
    session = [['quit'], ['lst', 'quit'], ['', 'q'], ['list [', 'connection Z', 'quit']][case[3]] if part == 'child' and len(case) > 3 else ['quit']
    if via_cli:
        libdir = None       # the default library directory does not exist in the sandbox

    def mkargs(mode, path=''):
        if via_cli and mode == Mode.RUN:
            # the command line a user types: our options, the marker, then the program's words (possibly spelled like our options)
            import io, contextlib
            from frontends.tui import arguments
            saved_cg = arguments.check_gdb
            arguments.check_gdb = lambda: False
            try:
                with contextlib.redirect_stdout(io.StringIO()), contextlib.redirect_stderr(io.StringIO()):
                    try:
                        a = arguments.parse_args(['main.py'] + (['--supress'] if supress else []) + (['-b', stop_text] if stop_text else []) + [ctx.choose(['-r', '--run', '-Cr'], 'marker')] + list(words))
                    except SystemExit:
                        # usage error / help: the program's own words were taken for ours
                        a = Arguments(False, False, True, None, '', matcher.always, matcher.never, None, ['main.py'], [])
            finally:
                arguments.check_gdb = saved_cg
            return a
        return Arguments(False, False, not supress, mode, path, matcher.always, stop_matcher, libdir, ['main.py'], list(words))

    saved = (main.protocol.load_all, runner.subprocess, runner.os, runner.threading, main.__dict__.get('open'), main.sys)
    main.protocol.load_all = lambda out: None

    def run_mode(mode):
        wl.Message.base_time = None
        out, err = RecStream(), RecStream()
        output = Output(False, not supress, out, err)
        prompts = []

        todo = list(session) if mode == 'run' else ['quit']

        def input_func(p):
            prompts.append(len(out.items))
            if len(prompts) == 1:
                info['err_at_first_prompt'] = len(err.items)
            return todo.pop(0) if todo else 'quit'
        info = {'prompts': prompts}
        code = None
        try:
            if mode == 'file':
                main.open = lambda path, *a, **k: FakeTextIO(text=text, kind='file')
                main.main(mkargs(Mode.LOAD_FROM_FILE, 'some.log'), output, input_func)
            elif mode == 'pipe':
                class S:
                    stdin = FakeTextIO(text=text)
                    version_info = saved[5].version_info
                    stdout = saved[5].stdout
                    stderr = saved[5].stderr
                main.sys = S
                main.main(mkargs(Mode.PIPE), output, input_func)
            else:
                FakeTextIO.early_closes[:] = []
                sched = ctx.choose(['child-first', 'on-first-block', 'chunk-per-block'], 'schedule') if part == 'stream' else 'on-first-block'
                chunks = []
                for li, i in enumerate(idx):
                    l = POOL[i] + ('\n' if (li < n - 1 or last_nl) else '')
                    if len(l) > 3 and part == 'stream' and ctx.choose([False, True], 'split%d' % li):
                        chunks += [l[:len(l) // 2], l[len(l) // 2:]]
                    elif l:
                        chunks.append(l)
                linger = ctx.choose([False, True], 'child_closes_stderr_long_before_exiting') if part == 'stream' else False
                pipe = Pipe()
                calls = []
                st = {'started': False, 'closed_fds': [], 'fdopened': [], 'parent_fd': True, 'child_fd': True}
                W = Worker()

                def sync_pipe():
                    pipe.write_open = st['parent_fd'] or st['child_fd']

                def child_body():
                    """the child process, executed inside whatever call waits for it (subprocess.run / Popen.wait); it hands the
                    baton back to the parent at every point where real time would pass"""
                    for c in list(chunks):
                        # a pipe holds a finite amount (whatever its size, some stream is longer): a BLOCKING write end - what os.pipe() gives -
                        # makes the writer wait, nothing is lost; on a write end switched to non-blocking the write fails with EAGAIN once unread data
                        # fills the pipe (modelled with the smallest capacity: one chunk), and a program does not retry writes to its stderr
                        if not (1002 in st.get('nonblocking', ()) and pipe.buf):
                            pipe.write(c)
                        chunks.remove(c)
                        if sched == 'chunk-per-block':
                            W.pause('wrote-chunk')
                    st['child_fd'] = False if linger else st['child_fd']
                    sync_pipe()
                    if linger:
                        W.pause('lingering')            # stderr closed, process still running for a long time
                    st['child_fd'] = False
                    st['child_exited'] = True
                    sync_pipe()

                class FakeCompleted:
                    returncode = status

                class FakePopen:
                    def __init__(self, args, **kw):
                        calls.append((args, kw))
                        self.returncode = None
                        self.args = args

                    def wait(self, timeout=None):
                        if self.returncode is None:
                            child_body()
                            self.returncode = status
                        return self.returncode

                    def poll(self):
                        return self.returncode

                    def communicate(self, *a, **k):
                        self.wait()
                        return (None, None)

                    def __enter__(self):
                        return self

                    def __exit__(self, *a):
                        self.wait()

                class FakeSubprocessModule:
                    Popen = FakePopen
                    PIPE, STDOUT, DEVNULL = -1, -2, -3

                    @staticmethod
                    def run(args, **kw):
                        calls.append((args, kw))
                        child_body()
                        return FakeCompleted()

                class FakeOs:
                    environ = dict(base_env)
                    path = saved[2].path

                    @staticmethod
                    def pipe():
                        return (1001, 1002)

                    @staticmethod
                    def fdopen(fd, mode='r', *a, **k):
                        st['fdopened'].append((fd, mode))
                        return FakeTextIO(pipe)

                    @staticmethod
                    def set_blocking(fd, blocking):
                        (st.setdefault('nonblocking', set()).discard if blocking else st.setdefault('nonblocking', set()).add)(fd)

                    @staticmethod
                    def get_blocking(fd):
                        return fd not in st.get('nonblocking', ())

                    @staticmethod
                    def close(fd):
                        st['closed_fds'].append(fd)
                        if fd == 1002:
                            st['parent_fd'] = False
                            sync_pipe()

                def on_block():
                    # the parent's read blocks: real time passes, the worker thread / the child make progress
                    return W.resume(reason='reader-blocked')
                pipe.on_block = on_block

                class FakeThread:
                    def __init__(self, name=None, target=None, **kw):
                        W.target = target

                    def start(self):
                        st['started'] = True
                        W.start()
                        if sched == 'child-first':
                            # the child runs as far as it can before the parent reads anything
                            while not W.finished and W.at != 'lingering':
                                if not W.resume(reason='head-start'):
                                    break

                    def join(self, timeout=None):
                        st['joined'] = True
                        while not W.finished:
                            if timeout is not None and W.at == 'lingering':
                                return                     # the child is still running when the timeout expires
                            if not W.resume(reason='join'):
                                break

                    def is_alive(self):
                        return not W.finished

                class FakeThreading:
                    Thread = FakeThread
                info['worker'] = W
                runner.subprocess, runner.os, runner.threading = FakeSubprocessModule, FakeOs, FakeThreading
                a = mkargs(Mode.RUN)
                info['mode'] = a.mode
                if a.mode == Mode.RUN:
                    try:
                        main.main(a, output, input_func)
                    except SystemExit as e:
                        code = e.code
                info.update(calls=calls, st=st, sched=sched, early_closes=list(FakeTextIO.early_closes))
                W.shutdown()
        finally:
            main.sys = saved[5]
            if saved[4] is None:
                main.__dict__.pop('open', None)
            else:
                main.open = saved[4]
            runner.subprocess, runner.os, runner.threading = saved[1], saved[2], saved[3]
        return out.items, err.items, code, info
    try:
        f_out, f_err, _, f_info = run_mode('file')
        p_out, p_err, _, p_info = run_mode('pipe')
        r_out, r_err, code, r_info = run_mode('run')
    finally:
        main.protocol.load_all = saved[0]
    ctx.check('-r / --run selects run mode whatever the program\'s own words look like', r_info.get('mode') == Mode.RUN)
    if r_info.get('mode') != Mode.RUN:
        return
    # pipe mode announces once, on the error stream, that it cannot pause at a breakpoint (there is no prompt): a start-up notice about -b, not part
    # of what is displayed for the stream
    p_err = [e for e in p_err if not (stop_text is not None and 'Ignoring stop matcher' in e)]
    if p_out != f_out or p_err != f_err:
        ctx.note('file', (f_out, f_err)); ctx.note('pipe', (p_out, p_err))
    ctx.check('pipe mode shows exactly what file mode shows', p_out == f_out and [e for e in p_err] == [e for e in f_err])
    if len(session) > 1 and r_info['prompts']:
        # what was typed at the prompt afterwards (and the diagnostics it earned) is no part of the comparison
        r_out, r_err = r_out[:r_info['prompts'][0]], r_err[:r_info.get('err_at_first_prompt', len(r_err))]
    ctx.check('run mode shows exactly what file mode shows (every chunking, every schedule)', r_out == f_out and r_err == f_err)
    calls, st = r_info['calls'], r_info['st']
    ctx.check('the helper thread is joined, not abandoned', r_info['worker'].finished)
    ctx.check('the program is started exactly once', len(calls) == 1 and st['started'])
    if len(calls) == 1:
        args, kw = calls[0]
        ctx.check('with its arguments verbatim and in order (identical words, also those spelled like our options)', len(args) == len(words) and all(a is b for a, b in zip(args, words)))
        ctx.check('its standard error is the pipe\'s write end', kw.get('stderr') == 1002)
        ctx.check('its standard output and input are left untouched', kw.get('stdout') is None and kw.get('stdin') is None and not kw.get('capture_output') and not kw.get('shell'))
        ctx.check('environment = ours + WAYLAND_DEBUG=1 (+ library directory prepended)', kw.get('env') == _expected_env(base_env, libdir))
    ctx.check('the parent reads the pipe\'s read end as text', st['fdopened'] and st['fdopened'][0][0] == 1001)
    ctx.check('the write end is closed once, after the program exited', st['closed_fds'].count(1002) == 1)
    ctx.check('the program\'s error stream is read to its end: the read end is never closed while the program can still write to it (it would die of SIGPIPE) or with lines unread',
              r_info.get('early_closes') == [])
    ctx.check('all of the program\'s output is shown before the first prompt', r_info['prompts'] and r_info['prompts'][0] == len(r_out))
    ctx.check('wayland-debug exits with the program\'s exit status', code == status)
    ctx.check('file mode prompts after the file is read; pipe mode never prompts', f_info['prompts'] == [len(f_out)] and p_info['prompts'] == [])


class _Tok(str):
    pass


def symx_tok(name):
    return _Tok('<<%s>>' % name)


def twin(ctx, case):
    modes(ctx, case)
    ctx.check('reachability twin (must be violated)', False)


def obligations(tier):
    nmax = 3 if tier == 'quick' else 4
    cases = [(0, 0, 'stream')] + [(n, f, 'stream') for n in range(1, nmax + 1) for f in range(len(POOL))]
    cases += [(n, f, 'child', k) for (n, f) in ((1, 0), (2, 4), (0, 0)) for k in range(4)]
    cases.sort(key=lambda c: -c[0])
    bounds = ('stream part: streams of <= %d lines from a pool of %d, last line with/without newline, each line whole or split mid-line, 3 schedules, child closing its stderr at exit or long before exiting, --supress on/off; '
              'child part: 2 environments x library directory set or not x 2 extra argument words from {opaque, -r, -g, --supress, -l, --, the empty word}; exit status symbolic in [0,256) throughout; 4 prompt sessions (slips included) after the program ended' % (nmax, len(POOL)))
    return [Ob('three-modes', 'symx', 'file = pipe = run; child started verbatim with the right environment and stdio; output before prompt; exit status', FUNCS, bounds, modes, cases=cases,
               stubs=['subprocess / threading / os.pipe / os.fdopen / os.close / os.environ replaced in runner.py', 'open() and sys.stdin replaced in main.py', 'protocol.load_all stubbed'],
               outside='real kernel/C-library behaviour (byte chunking, TextIOWrapper, thread scheduling, join timeout, real exit statuses)', budget_s=1200),
            Ob('main-block', 'symx', 'main.py run as __main__: the program\'s own words (after -r) change nothing wayland-debug itself shows or logs', FUNCS[:1] + ['main:__main__'], '9 x 4 x 6 argument vectors',
               __import__('harness.c19', fromlist=['main_block']).main_block, cases=[None], stubs=['run_program / run_gdb / protocol.load_all replaced by recorders']),
            Ob('three-modes-reachable', 'symx', 'reachability twin', FUNCS, bounds, twin, cases=[(2, 0, 'stream')], expect_cex=True)]
