"""C18 -- no input makes the tool fail with an unhandled error (the part that lives in decidable Python code)"""
import itertools
from lib.runner import Ob
from lib import symx

LEVEL = 'other'
MANIFEST = {'category': 'other', 'engine': 'symx+sre2smt+z3',
 'technique': 'symbolic/exhaustive exploration of the real error-handling structure: parse_all with nondeterministically failing decoder and sink (symx choose); regular-language inclusion (z3) of everything the line regexes hand to int()/float(); exhaustive enumeration of all matcher / command texts up to 3 (quick) / 4 (thorough) symbols of the matcher alphabet; evaluation and printing of accepted matchers on hostile argument values',
 'text': 'Partial by nature (totality over all byte strings is not solver-sized). Decided: (1) with the line decoder and the connection sink failing in every possible pattern (return / RuntimeError / any other exception) on <= 3 lines, nothing escapes parse.into_sink, every line is read and every opened connection is closed once; (2) for lines of ANY length that either regex matches, every text handed to int() or float() lies inside that builtin\'s accepted language (so decoding a matched line cannot raise ValueError); (3) every matcher of C05\'s expression family can be evaluated on, and printed next to, messages whose arguments take hostile values (inf, nan, huge and negative integers, empty and non-ASCII strings, missing types / names / incarnations, unresolved objects); (4) every string of <= 3/4 symbols over the matcher alphabet (incl. non-ASCII and ESC) is either parsed or rejected with RuntimeError by matcher.parse, and given as any command to Controller.process_command produces output or an error line and raises nothing. Log side: the real argument splitter (argument_list_strs / end_of_str) on ARBITRARY argument texts of <= 8 (11) symbolic characters terminates and loses no character (a path that does not end is reported and confirmed by a replay that does not end). Sequences of <= 3 (4) hostile but well-matched message lines (enormous time stamps and ids, ill-typed special messages, duplicates) through the real line loop: consumed to the end, connections closed, commands still answer. Logs of <= 3 (4) lines with bytes that are not valid UTF-8 through the real main() in file, pipe and run mode: nothing escapes, the log is consumed, connections are closed, the neighbouring lines are shown.',
 'note': 'Outside the claim: the C text layer itself (modelled by a stub with io.TextIOWrapper\'s documented error-policy contract: what the repository decides - how each stream is opened or configured and what surrounds readline() - is executed for real through main()), texts longer than the bound, KeyboardInterrupt/EOF at the prompt.'}
EXPLANATION = MANIFEST['text']
ASSUMPTIONS = ['a text stream behaves as io.TextIOWrapper documents for its error policy (strict raises UnicodeDecodeError, replace/ignore/surrogateescape/backslashreplace substitute)', 'int()/float() accept exactly the documented literal syntax incl. Unicode digits']
FUNCS = ['backends.libwayland_debug_output.parse:Parser.parse_all', 'backends.libwayland_debug_output.parse:Parser.cleanup', 'backends.libwayland_debug_output.parse:into_sink',
         'backends.libwayland_debug_output.parse:message', 'backends.libwayland_debug_output.parse:argument', 'core.matcher:parse', 'frontends.tui.controller:Controller.process_command',
         'core.matcher:IntArgValueMatcher.matches', 'core.matcher:MessagePattern.matches', 'core.matcher:MatcherList.__str__', 'core.matcher:MessagePattern.__str__']


class Boom(Exception):
    pass


def handlers(ctx, case):
    """parse_all / cleanup with a decoder and a sink that fail in every pattern"""
    import logging
    logging.disable(logging.CRITICAL)
    from backends.libwayland_debug_output import parse
    from core.output import Output
    from core import wl
    from lib.stubs import RecStream
    n = case
    saved = parse.message
    behaviours = [ctx.choose(['msgA', 'msgB', 'runtime', 'value', 'assertion', 'custom', 'sink-runtime', 'sink-boom'], 'line%d' % i) for i in range(n)]
    reads = []
    calls = {'open': [], 'close': [], 'msg': []}

    class F:
        i = 0
        def readline(self):
            reads.append(F.i)
            F.i += 1
            return ('line %d\n' % (F.i - 1)) if F.i <= n else ''

    class Sink:
        def open_connection(self, t, cid, role):
            calls['open'].append(cid)
        def close_connection(self, t, cid):
            calls['close'].append(cid)
        def message(self, cid, m):
            b = behaviours[int(m.name[1:])]
            if b == 'sink-runtime':
                raise RuntimeError('sink says no')
            if b == 'sink-boom':
                raise Boom('sink exploded')
            calls['msg'].append(cid)

    def fake_message(line):
        i = int(line.split()[1])
        b = behaviours[i]
        if b == 'runtime':
            raise RuntimeError(line)
        if b == 'value':
            raise ValueError('bad literal')
        if b == 'assertion':
            raise AssertionError()
        if b == 'custom':
            raise Boom('x')
        wl.Message.base_time = 0.0
        return ('connB' if b == 'msgB' else 'connA'), wl.Message(float(i), wl.UnresolvedObject(1, None), True, 'm%d' % i, ())
    parse.message = fake_message
    out, err = RecStream(), RecStream()
    try:
        escaped = None
        try:
            parse.into_sink(F(), Output(False, True, out, err), Sink())
        except Exception as e:
            escaped = e
    finally:
        parse.message = saved
    ctx.check('nothing escapes into_sink', escaped is None)
    ctx.check('every line is read, then EOF once', reads == list(range(n + 1)))
    ctx.check('every connection that was opened is closed exactly once, and only those', sorted(calls['close']) == sorted(set(calls['open'])) and len(set(calls['open'])) == len(calls['open']))
    hard = [i for i, b in enumerate(behaviours) if b in ('value', 'assertion', 'custom', 'sink-boom')]
    ctx.check('an unexpected error is reported on the error stream', (len(err.items) >= 1) == bool(hard))


def literal_inclusion(case):
    """everything the decoder hands to int()/float() after a regex match is inside the builtin's language"""
    import time, re
    from lib import sre2smt
    from backends.libwayland_debug_output import parse
    t0 = time.time()
    Z = sre2smt.Z()
    z3 = Z.z3
    R = sre2smt
    P = parse.WlPatterns()
    x = z3.String('x')
    D = R.cls(sre2smt.DIGIT)
    sign = R.opt(R.chars('+-'))
    INT = R.cat(sign, R.plus(D))
    FLOAT = R.cat(sign, R.alt(R.cat(R.plus(D), R.opt(R.cat(R.ch('.'), R.star(D)))), R.cat(R.ch('.'), R.plus(D))), R.opt(R.cat(R.chars('eE'), sign, R.plus(D))))
    FLOAT_COMMA = R.cat(sign, R.alt(R.cat(R.plus(D), R.opt(R.cat(R.chars('.,'), R.star(D)))), R.cat(R.chars('.,'), R.plus(D))), R.opt(R.cat(R.chars('eE'), sign, R.plus(D))))
    res = {'paths': 0, 'queries': 0, 'checks': 0, 'samples': []}

    def group_lang(ast, name):
        found = []
        def walk(n):
            k = n[0]
            if k == 'grp':
                if n[1] == name:
                    found.append(n[2])
                walk(n[2])
            elif k in ('cat', 'alt'):
                for c in n[1]: walk(c)
            elif k in ('star', 'plus', 'opt', 'loop'):
                walk(n[1])
        walk(ast)
        return found
    todo = []
    for pat in (P.out_msg_re, P.in_msg_re):
        ast, _ = sre2smt.from_pattern(pat)
        for g, lang, what in (('id', INT, 'int'), ('timestamp', FLOAT_COMMA, 'float after , -> .')):
            for sub in group_lang(ast, g):
                todo.append((g, sub, lang, what))
    ast, _ = sre2smt.from_pattern(P.arg_re)
    for g, lang, what in (('int', INT, 'int'), ('obj_id', INT, 'int'), ('new_id', INT, 'int'), ('fd', INT, 'int'), ('float', FLOAT_COMMA, 'float after , -> .')):
        for sub in group_lang(ast, g):
            todo.append((g, sub, lang, what))
    if len(todo) < 9:
        return {'status': 'error', 'detail': 'expected groups not found in the regexes'}
    for g, sub, lang, what in todo:
        r, w = Z.check([z3.InRe(x, Z.re(sub, 'plain')), z3.Not(z3.InRe(x, Z.re(lang, 'plain')))], want_model_of=x)
        res['queries'] += 1
        res['paths'] += 1
        if r == 'sat':
            res.update(status='cex', failed='group %s can capture %r which %s() rejects' % (g, w, what.split()[0]), cex={'group': g, 'text': w, 'what': what})
            return res
        if r != 'unsat':
            res.update(status='unknown', detail=str(w))
            return res
        res['checks'] += 1
    res['samples'] = [{'query': 'L(group %s) subset of L(%s literal)' % (g, what), 'answer': 'unsat'} for g, _, _, what in todo[:4]]
    res['status'] = 'ok'
    res['solver_s'] = time.time() - t0
    return res


def replay_literal(case, cex):
    t = cex['text']
    try:
        if cex['what'].startswith('int'):
            int(t)
        else:
            float(t.replace(',', '.'))
        return False, '%r is accepted' % t
    except ValueError as e:
        return True, 'a matched line hands %r to %s: %s' % (t, cex['what'], e)


def hostile_evaluation(ctx, case):
    """accepted matchers evaluate and print on hostile messages"""
    import logging
    logging.disable(logging.CRITICAL)
    from core import matcher, wl
    from spec import matcher_ref as R
    from harness import c05
    idx = case
    exprs = c05.gen_expressions('quick')
    e = exprs[idx]
    text = R.r_expr(e)
    m = matcher.parse(text).simplify()
    MO = wl.object.MockObject
    kind = ctx.choose(['inf', '-inf', 'nan', 'huge', 'neg', 'empty-str', 'unicode', 'untyped-obj', 'unresolved', 'nil-untyped', 'unknown', 'array', 'fd', 'labels', 'none-name'], 'arg')
    def arg():
        if kind == 'inf': return wl.Arg.Float(float('inf'))
        if kind == '-inf': return wl.Arg.Float(float('-inf'))
        if kind == 'nan': return wl.Arg.Float(float('nan'))
        if kind == 'huge': return wl.Arg.Int(10 ** 30)
        if kind == 'neg': return wl.Arg.Int(-2 ** 31)
        if kind == 'empty-str': return wl.Arg.String('')
        if kind == 'unicode': return wl.Arg.String('üñí \x1b[0m "q"')
        if kind == 'untyped-obj': return wl.Arg.Object(MO(None, 0.0, 7, 2, None), True)
        if kind == 'unresolved': return wl.Arg.Object(wl.UnresolvedObject(7, None), False)
        if kind == 'nil-untyped': return wl.Arg.Null(None)
        if kind == 'unknown': return wl.Arg.Unknown('?? what')
        if kind == 'array': return wl.Arg.Array([wl.Arg.Int(1)])
        if kind == 'fd': return wl.Arg.Fd(10 ** 12)
        if kind == 'labels':
            a = wl.Arg.Int(3); a.labels = []
            return a
        return wl.Arg.Int(0)
    a = arg()
    a.name = ctx.choose(['x', None, ''], 'argname') if kind != 'none-name' else None
    tgt = ctx.choose([MO(None, 0.0, 7, 2, 'wl_pointer'), MO(None, 0.0, 7, None, None), wl.UnresolvedObject(12, None)], 'target')
    msg = wl.message.MockMessage(0.0, tgt, True, ctx.choose(['motion', ''], 'name'), (a, arg()), ctx.choose([None, wl.UnresolvedObject(9, None)], 'destroyed'))
    r = m.matches(msg)
    ctx.check('a verdict is produced', r is True or r is False)
    ctx.check('the matcher can be printed', isinstance(str(m), str) and isinstance(repr(m), str))
    ctx.check('the unsimplified matcher can be printed and evaluated', isinstance(str(matcher.parse(text)), str) and matcher.parse(text).matches(msg) in (True, False))


ALPHABET = ['[', ']', '(', ')', ',', '!', '.', ':', '=', '@', '#', '"', '*', ' ', 'a', '5', 'n', '~', '-', 'é', '\x1b', '\\', '\t', '0', 'x', 'e', '+']


CORE = ['(', ')', '[', ']', ',', '!', '=', '"', 'a', '0', 'x', '.', ':', '@', '\\']      # the structural core of the matcher alphabet, for one symbol more


def argument_texts(ctx, case):
    """the argument text between the parentheses of a message line is arbitrary (quotes that never close, backslashes at the end, lone commas):
    the real splitter terminates on it, loses no character, and the real argument decoder answers for every piece"""
    from backends.libwayland_debug_output import parse
    n = case
    chars = [ctx.fresh_int('c%d' % k, 32, 127) for k in range(n)]
    if ctx.symbolic:
        text = symx.SWord(list(chars), 'args')
    else:
        text = ''.join(chr(c) for c in chars)
    got = parse.argument_list_strs(text)
    ctx.check('the splitter returns a list of pieces', isinstance(got, list))
    total = sum(len(g) for g in got)
    ctx.check('no character is lost or invented: pieces + separators cover the text', total + 2 * max(0, len(got) - 1) <= n and total + 2 * len(got) >= n)
    if not ctx.symbolic:
        p = parse.WlPatterns.lazy_get_instance()
        for g in got:
            a = parse.argument(p, g)
            ctx.check('every piece decodes to some argument (Unknown at worst)', a is not None)


HOSTILE_LINES = [
    '[99999999999999999999999999.000]  -> wl_display@1.sync(new id wl_callback@3)',
    '[1000.100]  -> wl_display@1.get_registry(new id wl_registry@2)',
    '[0.000] wl_display@1.delete_id(3)',
    '[1000.200] wl_a@99999999999999999999999.b(99999999999999999999999999999, -99999999999999999999, 1e5, 0.1.2)',
    '[1000.300] wl_a@7.b("unterminated, nil, [)',
    '[1000.300]  -> wl_a@7.b(new id [unknown]@0, new id wl_a@1, wl_a@0, fd -1, array[999999999999])',
    '[1000.100]  -> wl_display@1.get_registry(new id wl_registry@2)',
    '[     0.001] {Default Queue} <ZZZ> wl_a#7.b()',
    '[1000.400] wl_registry@2.bind(1, 2, 3)',
    '[1000.400]  -> xdg_toplevel@9.set_title()',
    # a time stamp too large for a double (inf), as first / middle / last line
    '[' + '9' * 320 + '.000]  -> wl_display@1.sync(new id wl_callback@3)',
    # a second connection whose message carries exactly the time stamp of another connection's message
    '[1000.100] {Default Queue} <ZZZ> wl_display#1.get_registry(new id wl_registry#2)',
]


def hostile_lines(ctx, case):
    """sequences of well-matched but hostile message lines (enormous time stamps and ids, ill-typed special messages, duplicates) through the real
    into_sink + manager + controller: consumed to the end, every opened connection closed, commands still answer"""
    import io, logging
    logging.disable(logging.CRITICAL)
    from backends.libwayland_debug_output import parse
    from core import wl, matcher, util
    from core.connection_manager import ConnectionManager
    from core.output import Output
    from frontends.tui.controller import Controller
    from lib.stubs import RecStream
    n = case
    util.color_output = False
    wl.Message.base_time = None
    lines = [ctx.choose(HOSTILE_LINES, 'line%d' % k) for k in range(n)]
    out, err = RecStream(), RecStream()
    output = Output(False, True, out, err)
    mgr = ConnectionManager()
    c = Controller(output, mgr, matcher.always, matcher.never)
    f = io.StringIO(''.join(l + chr(10) for l in lines))
    parse.into_sink(f, output, mgr)
    ctx.check('the log is consumed to the end', f.read() == '')
    ctx.check('every connection that was opened is reported closed', all(not x.is_open() for x in mgr.connections()) and
              len([x for x in out.items if x.startswith('Closed ')]) == len([x for x in out.items if x.startswith('New ')]))
    # (a line that trips an internal assertion - object id 0, wl_registry.bind with three arguments - is reported with a traceback and stops the
    #  DECODING of later lines; the log is still consumed and the connections closed, which is all this property asks for)
    for cmd in (('connection', 'list', 'connection A', 'list ~ 2') if mgr.connections() else ('list', 'connection A')):
        n0 = len(out.items) + len(err.items)
        c.process_command(cmd)
        ctx.check('afterwards `%s` answers' % cmd, len(out.items) + len(err.items) > n0)


BAD = ''      # stands for one byte that is not valid in the stream's encoding
BYTE_LINES = [
    '[1000.100]  -> wl_display@1.get_registry(new id wl_registry@2)',
    '[1000.200] {Default Queue} <B> wl_display#1.get_registry(new id wl_registry#2)',
    'chatter ' + BAD + BAD + ' of the program',
    '[1000.300]  -> wl_display@1.sync(new id wl_callback@3)' + BAD,
    '[1000.400] wl_registry@2.global(1, "wl_' + BAD + 'compositor", 4)',
    BAD,
]


class ByteTextIO:
    """a text stream over bytes, some of which cannot be decoded: the contract of io.TextIOWrapper with the error policy the stream was opened with
    (strict -> readline raises UnicodeDecodeError - here as late as possible, at the offending line itself; replace / ignore / surrogateescape /
    backslashreplace -> the documented substitution)"""
    SUBST = {'replace': '�', 'ignore': '', 'surrogateescape': '\udcff', 'backslashreplace': '\\xff'}

    def __init__(self, text, errors=None, encoding=None, log=None):
        self.rest = text
        self.errors = errors or 'strict'
        self.encoding = encoding or 'utf-8'
        self.closed = False
        self.log = log if log is not None else []

    def reconfigure(self, *, encoding=None, errors=None, newline=None, line_buffering=None, write_through=None):
        if errors is not None:
            self.errors = errors
        if encoding is not None:
            self.encoding = encoding

    def readline(self, size=-1):
        i = self.rest.find(chr(10))
        line, self.rest = (self.rest[:i + 1], self.rest[i + 1:]) if i >= 0 else (self.rest, '')
        if BAD in line:
            if self.encoding.lower().replace('-', '').replace('_', '') in ('latin1', 'iso88591', 'cp437'):
                return line.replace(BAD, '\xff')      # every byte is a character in these
            if self.errors == 'strict':
                raise UnicodeDecodeError('utf-8', b'\xff', 0, 1, 'invalid start byte')
            if self.errors not in self.SUBST:
                raise LookupError('unknown error handler name %r' % self.errors)
            return line.replace(BAD, self.SUBST[self.errors])
        return line

    def read(self, size=-1):
        out = ''
        while True:
            l = self.readline()
            if l == '':
                return out
            out += l

    def readlines(self, hint=-1):
        return list(self)

    def __iter__(self):
        return self

    def __next__(self):
        l = self.readline()
        if l == '':
            raise StopIteration
        return l

    def readable(self):
        return True

    def seekable(self):
        return False

    def isatty(self):
        return False

    def fileno(self):
        return 1001

    def close(self):
        self.closed = True

    def __enter__(self):
        return self

    def __exit__(self, *a):
        self.close()


FILE_LINES = [
    b'[1000.100]  -> wl_display@1.get_registry(new id wl_registry@2)',
    b'[1000.300]  -> wl_display@1.sync(new id wl_callback@3)',
    b'\x1f\x8b\x08\x00 starts like a gzip stream and is none',            # magic numbers of container formats at the start of a line / of the file
    b'\xef\xbb\xbf[1000.350] a byte order mark in front',
    b'PK\x03\x04 BZh9 \xfd7zXZ\x00 \x00\x00\x00 NUL bytes \xff\xfe',
    b'[1000.400] wl_callback@3.done(7)\r',                                    # CRLF line ends
    b'one\rtwo lone carriage returns\rthree',
    b'',
]


def hostile_files(ctx, case):
    """`-l FILE` on REAL files (real open(), real text layer) whose bytes are hostile: magic numbers of compressed containers, a byte order mark, NUL
    bytes, invalid UTF-8, CR and CRLF line ends, no final newline: main() returns, whatever was opened is closed, the well-formed lines around
    the hostile ones are shown"""
    import logging, importlib, tempfile, os, shutil
    logging.disable(logging.CRITICAL)
    from core import wl, matcher, util
    from frontends.tui.arguments import Arguments, Mode
    from core.output import Output
    from lib.stubs import RecStream
    n = case
    util.color_output = False
    wl.Message.base_time = None
    main = importlib.import_module('main')
    idx = [ctx.choose(list(range(len(FILE_LINES))), 'line%d' % k) for k in range(n)]
    last_nl = ctx.choose([True, False], 'last_newline')
    data = b''.join(FILE_LINES[i] + b'\n' for i in idx)
    if not last_nl:
        data = data[:-1]
    d = tempfile.mkdtemp(prefix='verif-c18-')
    out, err = RecStream(), RecStream()
    saved = main.protocol.load_all
    main.protocol.load_all = lambda o: None
    try:
        path = os.path.join(d, 'session.log')
        with open(path, 'wb') as f:
            f.write(data)
        code = None
        try:
            main.main(Arguments(False, False, True, Mode.LOAD_FROM_FILE, path, matcher.always, matcher.never, None, ['main.py'], []), Output(False, True, out, err), lambda p: 'quit')
        except SystemExit as e:
            code = e.code
        ctx.check('no traceback-style failure status', code in (None, 0))
    finally:
        main.protocol.load_all = saved
        shutil.rmtree(d, ignore_errors=True)
    news = [x for x in out.items if x.startswith('New ')]
    closed = [x for x in out.items if x.startswith('Closed ')]
    ctx.check('every connection that was opened is reported closed', len(news) == len(closed))
    for i in set(idx):
        if FILE_LINES[i].startswith(b'[1000.') and b'@' in FILE_LINES[i]:
            name = FILE_LINES[i].split(b'.')[2].split(b'(')[0].decode()
            ctx.check('the message line .%s is shown although hostile bytes surround it' % name, any(('.' + name + '(') in x for x in out.items))


def undecodable_bytes(ctx, case):
    """a log with bytes that are not valid UTF-8, in file, pipe and run mode, through the real main(): consumed to the end, every opened connection
    reported closed, nothing escapes. The text layer (C code) is a stub with io.TextIOWrapper's documented contract; what the repository decides - how
    each stream is opened / configured, what happens around readline() - is executed for real."""
    import logging, importlib
    logging.disable(logging.CRITICAL)
    from core import wl, matcher, util
    from frontends.tui.arguments import Arguments, Mode
    from core.output import Output
    from lib.stubs import RecStream
    n, mode = case
    util.color_output = False
    wl.Message.base_time = None
    main = importlib.import_module('main')
    runner = importlib.import_module('backends.libwayland_debug_output.runner')
    lines = [ctx.choose(BYTE_LINES, 'line%d' % k) for k in range(n)]
    last_nl = ctx.choose([True, False], 'last_newline')
    text = ''.join(l + chr(10) for l in lines)
    if not last_nl:
        text = text[:-1]
    ctx.assume(BAD in text)
    stdin_errors = ctx.choose(['strict', 'surrogateescape'], 'stdin_error_policy_of_the_locale') if mode == 'pipe' else 'strict'
    out, err = RecStream(), RecStream()
    output = Output(False, True, out, err)
    prompts = []
    streams = []

    def input_func(p):
        prompts.append(len(out.items))
        return 'quit'

    def fake_open(path, mode='r', buffering=-1, encoding=None, errors=None, newline=None, closefd=True, opener=None):
        if 'b' in mode:
            raise symx.Unsupported('the log is opened in binary mode: the text-layer stub does not model that')
        streams.append(ByteTextIO(text, errors, encoding))
        return streams[-1]

    saved = (main.protocol.load_all, runner.subprocess, runner.os, runner.threading, main.__dict__.get('open'), main.sys)
    main.protocol.load_all = lambda o: None
    escaped = None
    code = None
    try:
        try:
            if mode == 'file':
                main.open = fake_open
                main.main(Arguments(False, False, True, Mode.LOAD_FROM_FILE, 'some.log', matcher.always, matcher.never, None, ['main.py'], []), output, input_func)
            elif mode == 'pipe':
                class S:
                    stdin = ByteTextIO(text, stdin_errors)
                    version_info = saved[5].version_info
                    stdout = saved[5].stdout
                    stderr = saved[5].stderr
                streams.append(S.stdin)
                main.sys = S
                main.main(Arguments(False, False, True, Mode.PIPE, '', matcher.always, matcher.never, None, ['main.py'], []), output, input_func)
            else:
                st = {'target': None, 'ran': False}

                class FakeCompleted:
                    returncode = 3

                class FakePopen:
                    def __init__(self, args, **kw):
                        self.returncode = None

                    def wait(self, timeout=None):
                        self.returncode = 3
                        return 3

                    def poll(self):
                        return self.returncode

                    def __enter__(self):
                        return self

                    def __exit__(self, *a):
                        self.wait()

                class FakeSubprocessModule:
                    Popen = FakePopen
                    PIPE, STDOUT, DEVNULL = -1, -2, -3

                    @staticmethod
                    def run(args, **kw):
                        return FakeCompleted()

                class FakeOs:
                    environ = {'PATH': '/bin'}
                    path = saved[2].path

                    @staticmethod
                    def pipe():
                        return (1001, 1002)

                    @staticmethod
                    def fdopen(fd, mode='r', buffering=-1, encoding=None, errors=None, newline=None, closefd=True, opener=None):
                        if 'b' in mode:
                            raise symx.Unsupported('the pipe is opened in binary mode: the text-layer stub does not model that')
                        streams.append(ByteTextIO(text, errors, encoding))
                        return streams[-1]

                    @staticmethod
                    def close(fd):
                        pass

                class FakeThread:
                    # the program writes everything and exits before the parent reads (one of C13's schedules; the schedule is not the subject here)
                    def __init__(self, name=None, target=None, **kw):
                        st['target'] = target

                    def start(self):
                        st['target']()
                        st['ran'] = True

                    def join(self, timeout=None):
                        pass

                    def is_alive(self):
                        return not st['ran']

                class FakeThreading:
                    Thread = FakeThread
                runner.subprocess, runner.os, runner.threading = FakeSubprocessModule, FakeOs, FakeThreading
                try:
                    main.main(Arguments(False, False, True, Mode.RUN, '', matcher.always, matcher.never, None, ['main.py'], ['prog']), output, input_func)
                except SystemExit as e:
                    code = e.code
        except Exception as e:
            escaped = e
            if not isinstance(e, (UnicodeError, LookupError)):
                raise
    finally:
        main.sys = saved[5]
        if saved[4] is None:
            main.__dict__.pop('open', None)
        else:
            main.open = saved[4]
        main.protocol.load_all = saved[0]
        runner.subprocess, runner.os, runner.threading = saved[1], saved[2], saved[3]
    if escaped is not None:
        ctx.note('escaped', repr(escaped))
    ctx.check('undecodable bytes in the log do not abort the program (%s mode)' % mode, escaped is None)
    ctx.check('the log is consumed to the end', len(streams) == 1 and streams[0].rest == '')
    news = [x for x in out.items if x.startswith('New ')]
    ctx.check('every connection that was opened is reported closed', len([x for x in out.items if x.startswith('Closed ')]) == len(news))
    nmsg = len([l for l in lines if l.startswith('[')])
    ctx.check('the lines around the bad bytes are still shown (one item per line)', len([x for x in out.items if not x.startswith(('New ', 'Closed '))]) == n)
    if mode == 'file':
        ctx.check('file mode still prompts afterwards', len(prompts) == 1)
    if mode == 'run':
        ctx.check('run mode still exits with the program\'s status', code == 3)


def short_texts(ctx, case):
    """all strings of <= n symbols: matcher.parse accepts or raises RuntimeError; every command built from them answers"""
    import logging
    logging.disable(logging.CRITICAL)
    from core import matcher
    from harness import ctl
    first, n = case[:2]
    alphabet = ALPHABET if len(case) < 3 else CORE
    rest = [ctx.choose(alphabet + [''], 'sym%d' % i) for i in range(n - 1)]
    # canonical form: '' only at the end (shorter strings)
    seen_empty = False
    for s in rest:
        if s == '':
            seen_empty = True
        elif seen_empty:
            ctx.assume(False)
    text = first + ''.join(rest)
    accepted = None
    try:
        m = matcher.parse(text)
        accepted = True
    except RuntimeError:
        accepted = False
    ctx.check('matcher text is accepted or rejected with a diagnostic', accepted in (True, False))
    if accepted:
        s = m.simplify()
        ctx.check('an accepted matcher prints', isinstance(str(m), str) and isinstance(repr(m), str) and isinstance(str(s), str))
        from core import wl
        msg = wl.message.MockMessage(0.0, wl.object.MockObject(None, 0.0, 5, 0, 'a'), True, 'a', (wl.Arg.Int(5), wl.Arg.Null(None)))
        ctx.check('and evaluates', s.matches(msg) in (True, False) and m.matches(msg) in (True, False))
    # the same text in every syntactic position a matcher has: as argument list, inside a quoted string, as argument value, in brackets, as object,
    # as message name, after a connection name, before `@`
    for tpl in ('(%s)', '("%s")', '(x=%s)', '(x="%s", 5)', '[%s]', '%s.a', 'a.%s', 'A:%s', '%s@', 'a@5.b(%s)', '! %s'):
        try:
            m2 = matcher.parse(tpl % text)
            str(m2); str(m2.simplify())
            ok = True
        except RuntimeError:
            ok = True
        ctx.check('`%s` with the text in place is accepted (and prints) or rejected with a diagnostic' % tpl, ok)
    if not getattr(short_texts, '_w', None):
        short_texts._w = ctl.make_world(None, 1, show_stub=False)
        # a burst: several messages carrying the same time stamp, then one later
        ctl.add_message(short_texts._w, 0, t=2.5)
        ctl.add_message(short_texts._w, 0, t=2.5)
    w = short_texts._w
    for cmd in ('', 'list ', 'filter ', 'breakpoint ', 'matcher ', 'connection ', 'help ', 'l', 'zz ', 'wl ', 'wl'):
        n0, e0 = len(w.out.items), len(w.err.items)
        w.ctl.process_command(cmd + text)
        ctx.check('command `%s<text>` produces output or an error line' % cmd, len(w.out.items) + len(w.err.items) > n0 + e0 or (cmd + text).strip() in ('resume', 'quit', 'r', 'q') or
                  (cmd + text).split()[:1] in (['r'], ['q'], ['resume'], ['quit']))
    # keep the shared world small and neutral
    from core import matcher as M
    w.ctl.display_matcher, w.ctl.stop_matcher, w.ctl.current_connection = M.always, M.never, None
    del w.out.items[:]
    del w.err.items[:]


def obligations(tier):
    from harness import c05
    n_expr = len(c05.gen_expressions('quick'))
    step = 6 if tier == 'quick' else 2
    nsym = 3 if tier == 'quick' else 4
    return [
        Ob('handler-structure', 'symx', 'parse_all/cleanup under every pattern of decoder and sink failures', FUNCS[:3], '<= 3 lines x 8 behaviours each (exhaustive)', handlers, cases=[0, 1, 2, 3],
           stubs=['parse.message and the sink replaced by failing stubs']),
        Ob('argument-texts', 'symx', 'argument_list_strs (and end_of_str) on ARBITRARY argument texts with symbolic characters: terminates, loses nothing', FUNCS[:1] + ['backends.libwayland_debug_output.parse:argument_list_strs', 'backends.libwayland_debug_output.parse:end_of_str'],
           'every text of <= %d characters, each any of 32..126' % (8 if tier == 'quick' else 11), argument_texts, cases=list(range(0, 9 if tier == 'quick' else 12))),
        Ob('hostile-lines', 'symx', 'sequences of hostile but well-matched message lines (enormous numbers, ill-typed special messages, duplicates) through the real line loop, manager and controller', FUNCS[:3],
           'all sequences of <= %d lines from a pool of %d' % (3 if tier == 'quick' else 4, len(HOSTILE_LINES)), hostile_lines, cases=[1, 2, 3] if tier == 'quick' else [1, 2, 3, 4]),
        Ob('hostile-files', 'symx', '`-l FILE` on real files whose bytes are hostile (container magic numbers, byte order mark, NUL, invalid UTF-8, CR / CRLF, no final newline) through the real main() and the real text layer',
           ['main:main', 'main:file_input_main', 'backends.libwayland_debug_output.parse:Parser.parse_all'], 'all files of <= %d lines from a pool of %d, last line with/without newline' % (3 if tier == 'quick' else 4, len(FILE_LINES)),
           hostile_files, cases=[1, 2, 3] if tier == 'quick' else [1, 2, 3, 4], stubs=['protocol.load_all stubbed (no descriptions)'], outside='files the operating system cannot open / read (I/O errors)'),
        Ob('undecodable-bytes', 'symx', 'a log containing bytes that are not valid UTF-8 through the real main() in file, pipe and run mode', ['main:main', 'main:file_input_main', 'main:piped_input_main', 'backends.libwayland_debug_output.runner:run_program'] + FUNCS[:3],
           'all sequences of <= %d lines from a pool of %d (4 of them with undecodable bytes: in chatter, at the end of a message line, inside a string argument, alone), last line with/without newline, 3 modes, stdin policy strict / surrogateescape' % (3 if tier == 'quick' else 4, len(BYTE_LINES)),
           undecodable_bytes, cases=[(k, m) for k in ([1, 2, 3] if tier == 'quick' else [1, 2, 3, 4]) for m in ('file', 'pipe', 'run')],
           stubs=['open() / sys.stdin in main.py, os.fdopen / subprocess / threading in runner.py: text streams with io.TextIOWrapper\'s documented error-policy contract (strict raises UnicodeDecodeError at the offending line)', 'protocol.load_all stubbed'],
           outside='the C text layer itself; a strict stream really raises at the 8 KiB chunk containing the byte, i.e. possibly earlier than modelled'),
        Ob('literal-inclusion', 'smt', 'regex groups handed to int()/float() are inside the builtins\' languages (any length)', FUNCS[3:5], 'strings of any length', literal_inclusion, cases=[None], replay=replay_literal),
        Ob('hostile-evaluation', 'symx', 'matchers of the C05 family evaluate and print on hostile argument values', FUNCS[7:], 'every %d-th of %d expressions x 15 hostile argument kinds x 3 targets' % (step, n_expr),
           hostile_evaluation, cases=list(range(0, n_expr, step))),
        Ob('short-texts', 'symx', 'every matcher / command text of <= %d symbols over a %d-symbol alphabet' % (nsym, len(ALPHABET)), FUNCS[5:7], 'exhaustive: %d^%d strings' % (len(ALPHABET), nsym), short_texts,
           cases=[(a, nsym) for a in ALPHABET]),
        Ob('short-texts-core', 'symx', 'every matcher / command text of <= %d symbols over the %d structural symbols' % (nsym + 1, len(CORE)), FUNCS[5:7], 'exhaustive: %d^%d strings' % (len(CORE), nsym + 1), short_texts,
           cases=[(a, nsym + 1, 'core') for a in CORE]),
    ]
