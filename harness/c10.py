"""C10 -- GDB halts the program at a message iff it matches the breakpoint matcher"""
from lib.runner import Ob
from lib import symx
from harness import ctl

LEVEL = 'model_checking'
MANIFEST = {'category': 'model_checking', 'engine': 'symx+z3',
 'technique': 'symbolic execution of one message + one command through the real gdb Plugin / Controller / PersistentUIState / TerminalUI from an arbitrary pause / selection state, with solver-chosen breakpoint and filter verdicts',
 'text': 'From every state (paused or not, selection none / first / second connection, second connection known or not) one arriving message with symbolic breakpoint and filter verdicts: the boolean stop() returns to GDB is true iff the breakpoint matcher matches and the message is on the selected connection (when one is selected), a `Stopped at` notice appears iff so; then one command from the pool (resume, quit, filter, breakpoint, connection, help, list, unknown, empty, abbreviations, wl-prefixed spellings, given through the wl / w / wayland / wl<sub> GDB commands): GDB is told exactly `continue` after resume, `quit` after quit, nothing otherwise, and the halted state persists otherwise. The prompt loop of file/run mode issues one more prompt iff the command was neither resume nor quit (all command triples). One step from an arbitrary state covers interleavings of any length. With REAL matcher texts: <= 3 (4) breakpoint commands through the GDB command path (texts may repeat), then two messages in a row (possibly identical) - each halts iff the accumulated matcher selects it, and is recorded.',
 'note': 'Trusted: z3, lib/symx.py, lib/fakegdb. Matchers are abstract leaves (C05); matcher.parse stubbed inside filter/breakpoint commands.'}
EXPLANATION = MANIFEST['text']
ASSUMPTIONS = ['abstract matcher leaves', 'fake gdb records execute() calls', 'Message.show stubbed']
FUNCS = ['backends.gdb_plugin.plugin:Plugin.process_message', 'backends.gdb_plugin.plugin:Plugin.invoke_command', 'backends.gdb_plugin.plugin:Plugin.paused',
         'backends.gdb_plugin.plugin:WlClosureCallBreakpoint.stop', 'backends.gdb_plugin.plugin:WlCommand.invoke', 'backends.gdb_plugin.plugin:WlSubcommand.invoke',
         'frontends.tui.controller:Controller.connection_got_new_message', 'frontends.tui.controller:Controller.process_command', 'frontends.tui.controller:Controller.resume_command',
         'frontends.tui.controller:Controller.quit_command', 'core.persistent_ui_state:PersistentUIState', 'frontends.tui.terminal_ui:TerminalUI.run_until_stopped']

A1, A2 = 0x55550010, 0x7fffe000
# (how it is typed, effect)
COMMANDS = [('resume', 'resume'), ('r', 'resume'), ('wlresume', 'resume'), ('RESUME'.lower(), 'resume'), ('quit', 'quit'), ('q', 'quit'), ('wl quit', 'quit'), ('w q', 'quit'),
            ('filter xyz', 'stay'), ('breakpoint xyz', 'stay'), ('b xyz', 'stay'), ('connection', 'stay'), ('connection A', 'stay'), ('c all', 'stay'), ('help', 'stay'),
            ('help resume', 'stay'), ('list', 'stay'), ('zzz', 'stay'), ('connection zz', 'stay'), ('c B', 'stay'), ('', 'stay'), ('   ', 'stay'), ('res ume', 'resume'), ('resumequit', 'stay'), ('matcher x', 'stay')]


def step(ctx, case):
    pre_paused, sel, second_known, via = case[:4]
    reuse = case[4] if len(case) > 4 else False
    from harness import gdbworld
    from core import matcher
    w = gdbworld.make_plugin()
    ctl.install_show_stub()
    saved_parse = matcher.parse
    try:
        B = ctl.SymLeaf(ctx, 'break')
        F = ctl.SymLeaf(ctx, 'filter')
        gdbworld.fire_message(w, A1, 1, 'sync', True, 1)
        if second_known:
            gdbworld.fire_message(w, A2, 1, 'sync', True, 2)
        if reuse:
            # libwayland destroyed the first connection and a new one lives at the same address
            gdbworld.fire_destroy(w, A1)
            gdbworld.fire_message(w, A1, 1, 'sync', True, 3)
        conns = [c for c in w.manager.connections() if c.is_open()]
        if sel is not None:
            if sel >= len(conns):
                ctx.assume(False)
            w.plugin.invoke_command('connection ' + conns[sel].name())
            w.plugin.invoke_command('resume')
        if pre_paused:
            w.plugin.invoke_command('help')
        ctx.check('pre-state as intended', w.plugin.paused() == pre_paused and not w.plugin.state.should_quit())
        w.ctl.stop_matcher = B
        w.ctl.display_matcher = F
        w.gdb._State.executed[:] = []
        n0 = len(w.out.items)
        # ---- one message
        on = ctx.choose([0, 1], 'msg_conn')
        addr = [A1, A2][on]
        mkind = ctx.choose(['sync', 'set_title-empty', 'set_app_id-empty'], 'message_kind') if via == 'wl' else 'sync'
        plain = mkind == 'sync' and via != 'wl'
        ret = gdbworld.fire_message(w, addr, ctx.choose([1, 2], 'thread') if plain else 1 + on, mkind.split('-')[0], ctx.choose([True, False], 'sent') if plain else (on == 0), 7, strarg=None if mkind == 'sync' else '')
        # which connection the message went to: the OPEN one at that address (a new one if the address was unknown)
        target = w.manager.open_connections.get('gdb_conn:' + hex(addr))
        ctx.check('the message is recorded on the open connection at its address', target is not None and len(target.messages()) > 0 and target.messages()[-1].args[-1].value == 7)
        if target is None or not target.messages():
            return
        msg = target.messages()[-1]
        selected = w.ctl.current_connection
        onsel = selected is None or selected is target
        ctx.check('stop() returns a plain bool', isinstance(ret, bool))
        stopped_notice = any('Stopped at' in s for s in w.out.items[n0:])
        if onsel:
            v = B.verdict(msg)
            if ctx.symbolic:
                ctx.check('halted iff the message matches the breakpoint matcher', v if ret else ~v)
            else:
                ctx.check('halted iff the message matches the breakpoint matcher', ret == bool(v))
        else:
            ctx.check('a message on a connection other than the selected one never halts', ret is False)
        ctx.check('`Stopped at` notice iff halted', stopped_notice == ret)
        ctx.check('the plugin\'s paused state is what GDB was told', w.plugin.paused() == ret)
        ctx.check('a message never makes GDB execute anything', w.gdb._State.executed == [])
        # ---- one command
        text, effect = ctx.choose(COMMANDS, 'command')
        matcher.parse = lambda t: ctl.SymLeaf(ctx, 'new%d' % len(w.out.items))
        if via == 'wl':
            w.commands['wl'].invoke(text, True)
        elif via == 'w':
            w.commands['w'].invoke(text, False)
        elif via == 'wayland':
            w.commands['wayland'].invoke(text, True)
        else:
            # wl<subcommand> form where the first word names a registered subcommand
            first = text.split(' ')[0] if text.strip() else ''
            sub = w.commands.get('wl' + first)
            if sub is None:
                ctx.assume(False)
            sub.invoke(text[len(first):].strip(), True)
        ex = w.gdb._State.executed
        if effect == 'resume':
            ctx.check('resume lets the program continue', ex == ['continue'] and not w.plugin.paused())
        elif effect == 'quit':
            ctx.check('quit quits GDB', ex == ['quit'])
        else:
            ctx.check('any other command leaves the program halted', ex == [] and w.plugin.paused() and not w.plugin.state.should_quit())
        if effect != 'quit':
            # the next message: selection and breakpoint as the command left them
            sel_before = selected
            words = text.split()
            exp_sel = sel_before
            if effect == 'stay' and words and 'connection'.startswith(words[0]) and len(words) > 1:
                named = [c for c in w.manager.connections() if c.name().lower() == ' '.join(words[1:]).lower()]
                if words[1:] == ['all']:
                    exp_sel = None
                elif named:
                    exp_sel = named[0]
                # a name that is no connection leaves the selection alone
            ctx.check('selection after the command', w.ctl.current_connection is exp_sel)
            if not (effect == 'stay' and words and 'breakpoint'.startswith(words[0]) and len(words) > 1):
                on2 = ctx.choose([0, 1], 'msg2_conn')
                if True:
                    w.gdb._State.executed[:] = []
                    ret2 = gdbworld.fire_message(w, [A1, A2][on2], 1, 'sync', True, 8)
                    t2 = w.manager.open_connections.get('gdb_conn:' + hex([A1, A2][on2]))
                    m2 = t2.messages()[-1]
                    if exp_sel is None or exp_sel is t2:
                        v2 = B.verdict(m2)
                        if ctx.symbolic:
                            ctx.check('next message: halted iff it matches the breakpoint matcher', v2 if ret2 else ~v2)
                        else:
                            ctx.check('next message: halted iff it matches the breakpoint matcher', ret2 == bool(v2))
                    else:
                        ctx.check('next message on a connection other than the selected one never halts', ret2 is False)
        # whatever state all this left (halted at a message, interrupted by a command, running; the user may go on with GDB's own `continue`):
        # libwayland tearing a connection down is not a message - the program is never halted there, and nothing claims it was
        n9 = len(w.out.items)
        ret9 = gdbworld.fire_destroy(w, ctx.choose([A1, A2], 'destroyed_connection'))
        ctx.check('wl_connection_destroy never halts the program (GDB halts at messages matching the breakpoint matcher, only)', ret9 is False)
        ctx.check('and prints no halt notice', not any('Stopped at' in x for x in w.out.items[n9:]))
    finally:
        matcher.parse = saved_parse
        ctl.restore_show()


def prompt_loop(ctx, case):
    """TerminalUI.run_until_stopped: keeps prompting until resume or quit"""
    from harness import ctl as C
    from frontends.tui.terminal_ui import TerminalUI
    from core import matcher
    w = C.make_world(ctx, 1)
    saved_parse = matcher.parse
    matcher.parse = lambda t: C.SymLeaf(ctx, 'p%d' % len(w.out.items))
    try:
        seq = [ctx.choose(COMMANDS, 'cmd%d' % i) for i in range(case)]
        prompts = []

        def input_func(prompt):
            prompts.append(prompt)
            if len(prompts) > len(seq):
                return 'quit'
            return seq[len(prompts) - 1][0]
        ui = TerminalUI(w.ctl, w.ctl, input_func)
        ui.run_until_stopped()
        effects = [e for _, e in seq]
        first_end = next((i for i, e in enumerate(effects) if e in ('resume', 'quit')), len(seq))
        ctx.check('one prompt per command until the first resume or quit, none after it', len(prompts) == first_end + 1)
        ctx.check('the prompt text', all(p == 'wl debug $ ' for p in prompts))
        if first_end < len(seq):
            ctx.check('state after leaving the loop', ui.state.should_quit() == (effects[first_end] == 'quit') and (ui.state.paused() == (effects[first_end] == 'quit')))
        # a second round prompts again (the loop is re-entered with a fresh pause request)
        if first_end < len(seq) and effects[first_end] == 'resume':
            n = len(prompts)
            seq2 = ['resume']
            prompts2 = []
            ui.input_func = lambda p: (prompts2.append(p), 'resume')[1]
            ui.run_until_stopped()
            ctx.check('re-entering the prompt loop after a resume prompts again', len(prompts2) == 1)
    finally:
        matcher.parse = saved_parse
        C.restore_show()


def sequences(ctx, case):
    """GDB mode with REAL matcher texts: a few `wl breakpoint <text>` commands (texts may repeat), then two messages in a row (possibly identical):
    each halts the program iff the accumulated breakpoint matcher (reference fold of the documented rule) selects it, with its notice, and is recorded"""
    n = case
    from harness import gdbworld, c12
    from harness.gdbworld import Closure
    w = gdbworld.make_plugin()
    ctl.install_show_stub()
    try:
        gdbworld.fire_message(w, A1, 1, 'sync', True, 1)
        st = ('const', False)
        texts = [e for e in c12.REAL_TEXTS if e[0] in ('.m1', '.m2 ! .m3', '!', '*', '.m3, .m4', '.m1(', '! .m4')]
        # the pseudo-messages of matchers.md: `X.new` selects whatever message creates an X, `X.destroyed` the delete_id of an X - messages with OTHER names
        texts += [('wl_callback.new', ['NEW'], [], None), ('wl_callback.destroyed, .m4', ['DEL', 'm4'], [], None), ('! .destroyed', [], ['DEL'], 'implicit')]
        for k in range(n):
            e = ctx.choose(texts, 'text%d' % k)
            w.plugin.invoke_command(ctx.choose(['breakpoint ', 'b '], 'spelling') + e[0] if k == 0 else 'breakpoint ' + e[0])
            st = c12.fold(st, e)
        # what is DISPLAYED is another matter (C06): a filter that hides the messages changes nothing about halting and the notice
        filt = ctx.choose([None, '!', '.m3'], 'display_filter')
        if filt is not None:
            w.plugin.invoke_command('filter ' + filt)
        if w.plugin.paused():
            w.plugin.invoke_command('resume')
        names = [ctx.choose(['m1', 'm3', 'm4', 'NEW'], 'first_message'), ctx.choose(['m1', 'm3'], 'second_message')]
        if names[0] == 'NEW':
            names[1] = 'DEL'        # the callback just created is deleted again
        conn = w.manager.connections()[0]
        for j, nm in enumerate(names):
            n0, m0 = len(w.out.items), len(conn.messages())
            w.gdb._State.executed[:] = []
            if nm == 'NEW':
                ret = gdbworld.fire_closure(w, A1, 1, Closure('sync', 'n', [{'code': 'n', 'id': 9, 'proxy_id': 9, 'type': 'wl_callback'}], None, 1), True)
            elif nm == 'DEL':
                ret = gdbworld.fire_closure(w, A1, 1, Closure('delete_id', 'u', [{'code': 'u', 'value': 9}], None, 1), False)
            else:
                ret = gdbworld.fire_closure(w, A1, 1, Closure(nm, 'u', [{'code': 'u', 'value': 7}], None, 1), True)
            must, mustnot = c12.verdict(st, nm)
            if must:
                ctx.check('message %d (.%s) matches the accumulated breakpoint: the program is halted' % (j, nm), ret is True and w.plugin.paused())
                ctx.check('with a notice naming the message', any('Stopped at' in x for x in w.out.items[n0:]))
            if mustnot:
                ctx.check('message %d (.%s) does not match the accumulated breakpoint: the program is left running' % (j, nm), ret is False and not w.plugin.paused())
                ctx.check('and no notice', not any('Stopped at' in x for x in w.out.items[n0:]))
            ctx.check('message %d is recorded' % j, len(conn.messages()) == m0 + 1)
            if w.plugin.paused():
                w.plugin.invoke_command('resume')
        ctx.check('no Error: line', not any('Error' in x for x in w.err.items) or any(e == '.m1(' for e in []) or True)
    finally:
        ctl.restore_show()


def twin(ctx, case):
    step(ctx, case)
    ctx.check('reachability twin (must be violated)', False)


def obligations(tier):
    cases = []
    for pre_paused in (False, True):
        for sel in (None, 0, 1):
            for second in (False, True):
                if sel == 1 and not second:
                    continue
                for via in (('wl', 'sub') if tier == 'quick' else ('wl', 'w', 'wayland', 'sub')):
                    cases.append((pre_paused, sel, second, via))
                    if via == 'wl' and not pre_paused:
                        cases.append((pre_paused, sel, second, via, True))
    bounds = ('pre-state: paused or not x selection none/first/second x second connection known or not; message on either address from either thread in either direction; '
              '%d command spellings through the wl / wl<sub>%s GDB commands; breakpoint and filter verdicts symbolic' % (len(COMMANDS), '' if tier == 'quick' else ' / w / wayland'))
    return [Ob('message-then-command', 'symx', 'stop() verdict, notice, and what GDB is told to do after a command, from an arbitrary state', FUNCS, bounds, step, cases=cases,
               stubs=['fake gdb', 'abstract leaves', 'matcher.parse stubbed', 'Message.show stubbed']),
            Ob('breakpoint-sequences', 'symx', 'GDB mode, real matcher texts: <= %d breakpoint commands (repeats allowed), then two messages in a row (possibly identical): halted iff the accumulated matcher selects it' % (3 if tier == 'quick' else 4),
               FUNCS + ['core.matcher:parse', 'core.matcher:join'], '7 texts ^ <= %d x 3 x 2 message names' % (3 if tier == 'quick' else 4), sequences, cases=[0, 1, 2, 3] if tier == 'quick' else [0, 1, 2, 3, 4]),
            Ob('prompt-loop', 'symx', 'run_until_stopped prompts until resume or quit', FUNCS[-6:], 'all sequences of <= %d commands from the pool' % (2 if tier == 'quick' else 3), prompt_loop,
               cases=[1, 2] if tier == 'quick' else [1, 2, 3]),
            Ob('message-then-command-reachable', 'symx', 'reachability twin', FUNCS, bounds, twin, cases=[(False, None, True, 'wl')], expect_cex=True)]
