"""C19 -- everything after -r/-g is forwarded verbatim; everything before is ours"""
from lib.runner import Ob
from lib import symx
from harness import c13

LEVEL = 'model_checking'
MANIFEST = {'category': 'model_checking', 'engine': 'symx+z3',
 'technique': 'symbolic execution of the real _split_command / parse_args / _select_mode / run_gdb on argument vectors whose words have symbolic characters (SWord proxies: every comparison is a z3 constraint over code points) or are opaque tokens',
 'text': 'For every argument vector of <= 3 (quick) / 4 (thorough) words after the program name, each word either one of the marker spellings or a word of 0..4 (5) arbitrary printable characters: z3 proves the first marker (own word, or last letter of a single-dash cluster) splits the vector - left part unchanged (cluster minus its last letter), right part the identical word objects in order, command id r/g - and that without a marker nothing is forwarded. _select_mode returns a mode iff exactly one of run / gdb / load / pipe / in-GDB is requested (all 48 combinations). parse_args forwards symbolic words after the marker untouched and reports malformed -f/-b matchers. run_gdb: each word of wayland_debug_args reaches the `python ...` command only through repr() (opaque-token flow) and the forwarded words follow `gdb -ex <cmd>` verbatim; the literal decodes back on a pool of hostile words. Well-formed -f/-b values (also those starting with @ * ! [ .) become the matcher the text denotes. main.py executed as __main__ with the real sys.argv handling: verbosity / colour / mode come from the words before the marker only, a second mode (-l, also with an empty name, -p) runs nothing, forwarded words reach the runner verbatim.',
 'note': 'Trusted: z3, lib/symx.py (SWord string proxy), Python\'s guarantee that eval(repr(s)) == s for str. argparse itself is outside (it only sees the left part, which is shown unchanged). Clusters that contain r/g before the last letter raise a usage error: don\'t-care.'}
EXPLANATION = MANIFEST['text']
ASSUMPTIONS = ['words are printable ASCII (32..126) in the symbolic part', 'eval(repr(s)) == s for every str (language guarantee)']
FUNCS = ['frontends.tui.arguments:_split_command', 'frontends.tui.arguments:_strip_dashes', 'frontends.tui.arguments:_starts_with_single_dash',
         'frontends.tui.arguments:_select_mode', 'frontends.tui.arguments:parse_args', 'backends.gdb_plugin.runner:run_gdb']

MARKERS = {'-g': 'g', '--gdb': 'g', '-r': 'r', '--run': 'r'}


def _mkword(ctx, kind, name):
    if isinstance(kind, int):
        return symx.SWord.fresh(ctx, name, kind)
    return kind


def _b(ctx, x):
    return bool(x)


def _classify(ctx, w):
    """specification: ('own', id) | ('cluster', id) | ('usage-error',) | None ; forks on the word's characters"""
    for lit, cid in MARKERS.items():
        if _b(ctx, w == lit):
            return ('own', cid)
    if len(w) > 2 and _b(ctx, w[0] == '-') and _b(ctx, w[1] != '-'):
        body_has = [_b(ctx, c in w[:-1]) for c in 'gr']
        last = [_b(ctx, w[-1] == c) for c in 'gr']
        if body_has[0]:
            return ('usage-error',)
        if last[0]:
            return ('cluster', 'g')
        if body_has[1]:
            return ('usage-error',)
        if last[1]:
            return ('cluster', 'r')
    return None


def split(ctx, case):
    from frontends.tui import arguments
    kinds = case
    words = [_mkword(ctx, k, 'w%d' % i) for i, k in enumerate(kinds)]
    argv = ['main.py'] + words
    raised = None
    try:
        before, cid, after = arguments._split_command(list(argv), [['-g', '--gdb'], ['-r', '--run']])
    except RuntimeError as e:
        raised = e
    # specification
    exp = None
    for i, w in enumerate(argv):
        if i == 0:
            continue
        c = _classify(ctx, w)
        if c is None:
            continue
        if c[0] == 'usage-error':
            ctx.assume(False)        # r/g inside a cluster before its last letter: usage error, outside the statement
        exp = (i, c)
        break
    ctx.check('no error for a well-formed vector', raised is None)
    if raised is not None:
        return
    same = lambda xs, ys: len(xs) == len(ys) and all(x is y for x, y in zip(xs, ys))
    if exp is None:
        ctx.check('no marker: nothing is forwarded, everything is ours', same(before, argv) and cid == '' and after == [])
        return
    i, (how, want) = exp
    ctx.check('command id of the FIRST marker', cid == want)
    ctx.check('everything after the first marker is forwarded verbatim and in order (identical words, later markers included)', same(after, argv[i + 1:]))
    if how == 'own':
        ctx.check('everything before the marker is ours, unchanged', same(before, argv[:i]))
    else:
        ctx.check('everything before the cluster is ours, unchanged', same(before[:i], argv[:i]) and len(before) == i + 1)
        if len(before) == i + 1:
            rest = before[i]
            w = argv[i]
            if isinstance(w, str):
                ctx.check('the cluster keeps its other flags', rest == w[:-1])
            else:
                ctx.check('the cluster keeps its other flags', isinstance(rest, symx.SWord) and len(rest.chars) == len(w.chars) - 1 and all(a is b for a, b in zip(rest.chars, w.chars)))


def select_mode(ctx, case):
    import logging
    logging.disable(logging.CRITICAL)
    from frontends.tui import arguments
    cid = ctx.choose(['', 'g', 'r'], 'command')
    in_gdb = ctx.choose([False, True], 'in_gdb')
    path = ctx.choose([None, 'file.log', ''], 'load')
    pipe = ctx.choose([False, True], 'pipe')

    class A:
        pass
    a = A()
    a.path, a.pipe = path, pipe
    saved = arguments.check_gdb
    arguments.check_gdb = lambda: in_gdb
    try:
        m = arguments._select_mode(cid, a)
    finally:
        arguments.check_gdb = saved
    req = []
    if cid == 'g': req.append(arguments.Mode.GDB_RUNNER)
    if cid == 'r': req.append(arguments.Mode.RUN)
    if in_gdb: req.append(arguments.Mode.GDB_PLUGIN)
    if path is not None: req.append(arguments.Mode.LOAD_FROM_FILE)
    if pipe: req.append(arguments.Mode.PIPE)
    ctx.check('a mode is selected iff exactly one is requested', (m is not None) == (len(req) == 1))
    if len(req) == 1:
        ctx.check('and it is that mode', m == req[0])


def parse_args_forwarding(ctx, case):
    """the real parse_args (argparse included) on our options + marker + forwarded words that look like ours"""
    import logging, io, contextlib
    logging.disable(logging.CRITICAL)
    from frontends.tui import arguments
    from core import matcher
    left = ctx.choose([[], ['-C'], ['--supress', '-f', 'wl_pointer'], ['-b', 'wl_surface.commit', '--color'], ['-f', '[a, b ! c]', '-b', '!']], 'ours')
    marker = ctx.choose(['-r', '--run', '-g', '--gdb', '-Cr', '-Cg'], 'marker')
    fw = [symx.SWord.fresh(ctx, 'f%d' % i, n) if isinstance(n, int) else n for i, n in enumerate(ctx.choose(
        [[3], ['-l', 2], ['--', '-f', 4], ['-r', '-g', 1], ['-p', '--pipe', '-C', 0]], 'forwarded'))]
    argv = ['main.py'] + left + [marker] + fw
    saved = arguments.check_gdb
    arguments.check_gdb = lambda: False
    try:
        with contextlib.redirect_stdout(io.StringIO()), contextlib.redirect_stderr(io.StringIO()):
            a = arguments.parse_args(list(argv))
    finally:
        arguments.check_gdb = saved
    ctx.check('forwarded words are the identical objects, in order', len(a.command_args) == len(fw) and all(x is y for x, y in zip(a.command_args, fw)))
    ctx.check('mode from the marker', a.mode == (arguments.Mode.RUN if marker.endswith('r') or marker == '--run' else arguments.Mode.GDB_RUNNER))
    exp_left = ['main.py'] + left + (['-C'] if marker in ('-Cr', '-Cg') else [])
    ctx.check('the instance inside GDB would receive exactly our words', a.wayland_debug_args == exp_left)
    ctx.check('-C honoured wherever it was given on our side', a.show_color is (True if '--color' in left and '-C' not in exp_left else False))
    ctx.check('--supress ours', a.show_unprocessed_output == ('--supress' not in left))
    ctx.check('-f parsed as a matcher', (a.filter_matcher is matcher.always) == ('-f' not in left))
    ctx.check('-b parsed as a matcher', (a.stop_matcher is matcher.never) == ('-b' not in left))


def values_like_markers(ctx, case):
    """only the words -r / --run / -g / --gdb (and clusters ending in r / g) are markers: the bare words r, g, run, gdb - as the value of one of
    our options or as a file name - are values"""
    import logging, io, contextlib
    logging.disable(logging.CRITICAL)
    from frontends.tui import arguments
    from core import matcher
    word = ctx.choose(['r', 'g', 'run', 'gdb'], 'bare_word')
    opt = ctx.choose(['-l', '--load', '-f', '-b', '--libwayland'], 'option')
    tail = ctx.choose([None, ['-r', 'prog', 'g', 'run'], ['--gdb', 'prog', 'r']], 'marker_later')
    ours = [opt, word] + ([] if opt in ('-l', '--load') else (['-p'] if tail is None else []))
    argv = ['main.py'] + ours + (tail or [])
    saved = arguments.check_gdb
    arguments.check_gdb = lambda: False
    try:
        with contextlib.redirect_stdout(io.StringIO()), contextlib.redirect_stderr(io.StringIO()):
            try:
                a = arguments.parse_args(list(argv))
            except SystemExit:
                a = None
    finally:
        arguments.check_gdb = saved
    if tail is not None and opt in ('-l', '--load'):
        # two modes requested: usage, nothing runs (C19 select-mode)
        ctx.check('a load path plus a marker: no mode', a is None or a.mode is None)
        return
    ctx.check('the vector is accepted', a is not None)
    if a is None:
        return
    ctx.check('everything before the real marker is ours, the bare word included', a.wayland_debug_args == ['main.py'] + ours)
    ctx.check('forwarded: exactly the words after the real marker', a.command_args == (tail[1:] if tail else []))
    exp_mode = arguments.Mode.LOAD_FROM_FILE if (tail is None and opt in ('-l', '--load')) else arguments.Mode.PIPE if tail is None else (arguments.Mode.RUN if tail[0] == '-r' else arguments.Mode.GDB_RUNNER)
    ctx.check('mode', a.mode == exp_mode)
    if opt in ('-l', '--load'):
        ctx.check('the file to load is the bare word', a.load_path == word)
    if opt == '-f':
        ctx.check('the filter is the matcher `%s`' % word, a.filter_matcher is not matcher.always and word in str(a.filter_matcher))
    if opt == '-b':
        ctx.check('the breakpoint is the matcher `%s`' % word, a.stop_matcher is not matcher.never and word in str(a.stop_matcher))


def main_block(ctx, case):
    """the program's entry point (main.py run as __main__) with the real argv handling: what wayland-debug itself does (verbosity, colour, mode)
    is decided by the words before the marker only; the words after it reach the runner verbatim"""
    import logging, io, contextlib, runpy, sys, os
    from core import util
    import backends.libwayland_debug_output as lwo
    from backends import gdb_plugin
    from core.wl import protocol
    from frontends.tui import arguments
    repo = os.environ.get('VERIF_REPO', '/repo')
    ours = ctx.choose([[], ['-C'], ['--verbose'], ['-f', 'wl_pointer'], ['--verbose', '-b', 'wl_surface'], ['-l', 'x.log'], ['-l', ''], ['-p'], ['--load', '', '-C']], 'ours')
    marker = ctx.choose(['-r', '--run', '-g', '--gdb'], 'marker')
    fw = ctx.choose([['prog'], ['prog', '--verbose'], ['--verbose'], ['prog', '-C', '--color'], ['prog', '-f', '('], ['prog', '--supress', '-l', 'x']], 'forwarded')
    calls = []

    class Records(logging.Handler):
        def __init__(self):
            super().__init__(level=logging.DEBUG)
            self.items = []

        def emit(self, record):
            self.items.append((record.levelno, record.getMessage()))
    h = Records()
    root = logging.getLogger()
    saved = (lwo.run_program, gdb_plugin.run_gdb, protocol.load_all, arguments.check_gdb, list(sys.argv), root.level, util.verbose, util.color_output, logging.root.manager.disable)
    lwo.run_program = lambda output, args, *a: calls.append(('run', args)) or 0
    gdb_plugin.run_gdb = lambda args, quiet: calls.append(('gdb', args))
    protocol.load_all = lambda out: None
    arguments.check_gdb = lambda: False
    sys.argv = ['main.py'] + ours + [marker] + fw
    logging.disable(logging.NOTSET)
    root.addHandler(h)
    so, se = io.StringIO(), io.StringIO()
    code = None
    try:
        with contextlib.redirect_stdout(so), contextlib.redirect_stderr(se):
            try:
                runpy.run_path(os.path.join(repo, 'main.py'), run_name='__main__')
            except SystemExit as e:
                code = e.code
    finally:
        root.removeHandler(h)
        lwo.run_program, gdb_plugin.run_gdb, protocol.load_all, arguments.check_gdb = saved[:4]
        sys.argv = saved[4]
        root.setLevel(saved[5])
        util.verbose, util.color_output = saved[6], saved[7]
        logging.disable(saved[8])
    verbose = '--verbose' in ours
    if any(o in ours for o in ('-l', '--load', '-p')):
        ctx.check('a second mode before the marker (-l FILE, also with an empty name, or -p): usage / error, nothing runs', calls == [] and (code is not None or so.getvalue() != ''))
        return
    ctx.check('the runner is started once, in the mode of the marker', len(calls) == 1 and calls[0][0] == ('run' if marker in ('-r', '--run') else 'gdb'))
    if len(calls) != 1:
        return
    a = calls[0][1]
    ctx.check('forwarded words reach the runner verbatim', list(a.command_args) == fw)
    ctx.check('our words are the ones before the marker', list(a.wayland_debug_args)[1:] == ours)
    ctx.check('verbosity is decided by OUR words only', a.show_verbose == verbose)
    chatty = [m for lv, m in h.items if lv < logging.WARNING]
    ctx.check('without -v/--verbose before the marker wayland-debug logs nothing below warnings, whatever the program\'s words are', verbose or chatty == [])
    ctx.check('nothing is printed on standard output by wayland-debug itself', so.getvalue() == '')


def bad_matchers(ctx, case):
    import logging, io, contextlib
    logging.disable(logging.CRITICAL)
    from frontends.tui import arguments
    opt = ctx.choose(['-f', '-b', '--filter', '--break'], 'option')
    text = ctx.choose(['(', 'a(b', 'x@y@z', '[a', 'a.b.c', 'a=b', '"', 'a:b:c', 'wl_surface(7',
                       # well-formed values, among them every documented way to start a matcher (`@5` = the object with id 5)
                       '@5', '@5a', 'wl_surface@5', '*', '!', 'A: wl_pointer', '[wl_a, wl_b ! .c]', '.motion(x=1)', '! @7'], 'text')
    saved = arguments.check_gdb
    arguments.check_gdb = lambda: False
    raised = None
    exited = False
    a = None
    try:
        with contextlib.redirect_stdout(io.StringIO()), contextlib.redirect_stderr(io.StringIO()):
            a = arguments.parse_args(['main.py', opt, text, '-l', 'x.log'])
    except RuntimeError as e:
        raised = e
    except SystemExit:
        exited = True
    finally:
        arguments.check_gdb = saved
    from core import matcher
    try:
        matcher.parse(text)
        malformed = False
    except RuntimeError:
        malformed = True
    ctx.check('a -f/-b value is never taken for something other than a matcher (usage error / exit)', not exited)
    ctx.check('a malformed -f/-b value is reported as an error, not ignored', (raised is not None) == malformed)
    if not malformed and a is not None:
        got = a.filter_matcher if opt in ('-f', '--filter') else a.stop_matcher
        ctx.check('a well-formed -f/-b value `%s` becomes the matcher that text denotes' % text, str(got) == str(matcher.parse(text).simplify()) or str(got) == str(matcher.parse(text)))
    if raised is not None:
        ctx.check('the error names the option', ('filter' if opt in ('-f', '--filter') else 'break') in str(raised))


# ---------------------------------------------------------------------------------------------------------------- identifier language
STRUCTURAL = '.,!()[]@:="~'      # characters with a meaning of their own in matcher texts (`~` in `list`)


def identifier_language(case):
    """which words the matcher language takes for an identifier (type, message and argument names with `*` wildcards): the language the live code
    accepts - the compiled `identifier_re` as `identifier_matcher` applies it (match / fullmatch / search found by running it once on a recorder) -
    against the documented one, [A-Za-z0-9_*-]*, over printable non-structural characters; strings of any length, decided as regular-language
    (in)equivalence by z3. A regex-free identifier_matcher is executed on words with symbolic characters instead."""
    import time, re
    from lib import sre2smt
    from core import matcher
    t0 = time.time()
    res = {'paths': 0, 'queries': 0, 'checks': 0, 'samples': []}
    pat = getattr(matcher, 'identifier_re', None)
    used = []

    class Rec:
        def __init__(self, real):
            self.real = real
        def __getattr__(self, name):
            if name in ('match', 'fullmatch', 'search', 'findall', 'finditer', 'sub', 'split'):
                used.append(name)
            return getattr(self.real, name)
    if isinstance(pat, re.Pattern):
        matcher.identifier_re = Rec(pat)
        try:
            try:
                matcher.identifier_matcher('ab_c')
            except RuntimeError:
                pass
        finally:
            matcher.identifier_re = pat
    if not isinstance(pat, re.Pattern) or len(used) != 1 or used[0] not in ('match', 'fullmatch', 'search'):
        return identifier_language_symbolic(res, t0)
    mode = used[0]
    Z = sre2smt.Z()
    z3 = Z.z3
    R = sre2smt
    try:
        ast, anchors = sre2smt.from_pattern(pat)
    except sre2smt.Untranslatable as e:
        res.update(status='unknown', detail='identifier_re: %s' % e)
        return res
    any_ = R.star(R.cls([], True))
    parts = []
    if mode == 'search' and not anchors['begin']:
        parts.append(any_)
    parts.append(ast)
    if mode != 'fullmatch' and not anchors['end']:
        parts.append(any_)
    live = R.cat(*parts)
    ref = R.star(R.union_cls(R.rng('A', 'Z'), R.rng('a', 'z'), R.rng('0', '9'), R.chars('_*-')))
    sigma = R.star(R.minus_cls(R.union_cls(R.rng('!', '~'), R.chars('é٣')), STRUCTURAL))
    x = z3.String('x')
    for what, a, b in (('accepts a word that is not an identifier', live, ref), ('rejects an identifier', ref, live)):
        r, w = Z.check([z3.InRe(x, Z.re(sigma, 'plain')), z3.InRe(x, Z.re(a, 'plain')), z3.Not(z3.InRe(x, Z.re(b, 'plain')))], want_model_of=x)
        res['queries'] += 1
        res['paths'] += 1
        if r == 'sat':
            res.update(status='cex', failed='identifier_matcher %s: %r' % (what, w), cex={'text': w, 'expect_accept': a is ref})
            return res
        if r != 'unsat':
            res.update(status='unknown', detail=str(w))
            return res
        res['checks'] += 1
    res['samples'] = [{'query': 'L(identifier_re as .%s()) = [A-Za-z0-9_*-]* over printable non-structural characters (any length)' % mode, 'answer': 'unsat both ways'}]
    res['status'] = 'ok'
    res['solver_s'] = time.time() - t0
    return res


def identifier_language_symbolic(res, t0):
    import time
    res.update(status='unknown', detail='identifier_matcher does not apply a compiled identifier_re exactly once via match/fullmatch/search: not encodable here')
    return res


def replay_identifier(case, cex):
    """through the real command line: -f 'wl_a.<word>' and -b 'wl_a.b(<word>=1)'"""
    import io, contextlib, logging
    logging.disable(logging.CRITICAL)
    from frontends.tui import arguments
    w, expect = cex['text'], cex['expect_accept']
    saved = arguments.check_gdb
    arguments.check_gdb = lambda: False
    got = []
    try:
        for opt, text in (('-f', 'wl_a.' + w), ('-b', 'wl_a.b(' + w + '=1)')):
            try:
                with contextlib.redirect_stdout(io.StringIO()), contextlib.redirect_stderr(io.StringIO()):
                    arguments.parse_args(['main.py', opt, text, '-l', 'x.log'])
                got.append(True)
            except RuntimeError:
                got.append(False)
            except SystemExit:
                got.append(None)
    finally:
        arguments.check_gdb = saved
    bad = [g for g in got if g is not expect]
    if bad:
        return True, '-f %r / -b %r: %s, but %r %s an identifier of the matcher language' % ('wl_a.' + w, 'wl_a.b(' + w + '=1)', ['accepted' if g else 'rejected' if g is False else 'usage exit' for g in got], w, 'is' if expect else 'is not')
    return False, 'the command line treats %r as the documentation says' % w


HOSTILE = ['plain', '{}', '{0}{1}', '{script}', '}{', 'two words', 'say "hi"', "it's", 'back\\slash', 'trail\\', 'new\nline', 'tab\there', '\\"', '\'"\'', 'üñí', '$(x) `y` ;z', '', '\\n', 'a\rb', "x']; import os #"]


class Tok(str):
    """opaque word: a real str (so it can be joined and concatenated) whose content is a unique token"""
    def __new__(cls, name, how='raw'):
        o = str.__new__(cls, '⟦%s:%s⟧' % (how, name))
        o.name, o.how = name, how
        return o

    def __repr__(self):
        return '⟦repr:%s⟧' % self.name

    def replace(self, a, b, *c):
        return Tok(self.name, self.how + '.replace(%r,%r)' % (a, b))


def gdb_quoting(ctx, case):
    """run_gdb with FakePopen: how do the words of wayland_debug_args reach the in-GDB instance?"""
    import logging, os, importlib, ast
    logging.disable(logging.CRITICAL)
    runner = importlib.import_module('backends.gdb_plugin.runner')
    from frontends.tui.arguments import Arguments
    captured = []

    class FakePopen:
        def __init__(self, call_args, env=None, **kw):
            captured.append((call_args, env, kw))
            self.returncode = 0

        def wait(self):
            return 0

    class FakeSub:
        Popen = FakePopen

        @staticmethod
        def run(*a, **k):
            class R:
                returncode = 0
                stdout = 'with debug_info'
            return R()
    saved = (runner.subprocess, runner.verify_gdb_available)
    runner.subprocess = FakeSub
    runner.verify_gdb_available = lambda: None
    try:
        nwords = case
        # each word: opaque (any content) or one of a few concrete hostile spellings (braces, quotes, backslash, newline)
        def opaque(name):
            return Tok(name) if ctx.symbolic else 'plain_' + name
        words = [ctx.choose([opaque('w%d' % i), '{}', 'a{0}b', '{script}', 'x}y{', "it's", 'q"q', 'back\\slash', 'new\nline'], 'word%d' % i) for i in range(nwords)]
        fw = [opaque('f0'), ctx.choose([opaque('f1'), '{}', '-g'], 'fw1')]
        flags = ctx.choose([(False, False, True), (True, False, True), (False, True, False), (True, True, False)], 'verbose_colour_passthrough')
        quiet = ctx.choose([True, False], 'quiet')
        runs = [(words, fw)]
        if not ctx.symbolic:
            # replay: the witness' own words first, then hostile concrete words in every position
            runs += [([h] * nwords, ['prog', h]) for h in HOSTILE]
        for words, fw in runs:
            captured.clear()
            a = Arguments.default()
            a.wayland_debug_args = ['/opt/wd/main.py'] + list(words)
            a.command_args = list(fw)
            a.wayland_lib_dir = None
            # what the words before the marker switched on in THIS instance must not change what the instance inside GDB receives
            a.show_verbose, a.show_color, a.show_unprocessed_output = flags
            import io, contextlib
            with contextlib.redirect_stdout(io.StringIO()):
                rc = runner.run_gdb(a, quiet)
            ctx.check('gdb is started once', len(captured) == 1)
            call = captured[0][0]
            ctx.check('gdb -ex <python command> followed by the forwarded words verbatim', call[0] == 'gdb' and call[1] == '-ex' and len(call) == 3 + len(fw)
                      and all(x is y for x, y in zip(call[3:], fw)))
            cmd = call[2]
            pre = 'python import sys; sys.argv = ['
            ctx.check('the command re-creates sys.argv', cmd.startswith(pre) and ']; exec(open(' in cmd)
            lit = cmd[len(pre) - 1:cmd.index('; exec(open(')]
            if ctx.symbolic and any(isinstance(w, Tok) for w in words):
                want = '[' + ', '.join([repr('/opt/wd/main.py')] + [repr(w) for w in words]) + ']'
                alt = want.replace("'/opt/wd/main.py'", '"/opt/wd/main.py"')
                ctx.check('every word reaches the literal through repr() only (so it decodes back for every possible word)', lit in (want, alt))
                ctx.check('the script path is read back from a literal too', ('exec(open(' + repr('/opt/wd/main.py') + ').read())') in cmd or 'exec(open("/opt/wd/main.py").read())' in cmd)
            else:
                try:
                    got = ast.literal_eval(lit)
                except Exception as e:
                    got = 'undecodable: %s' % e
                ctx.check('the in-GDB instance receives exactly our words (hostile word %r)' % (words[0] if words else None), got == ['/opt/wd/main.py'] + list(words))
            ctx.check('PYTHONPATH points at the script directory', captured[0][1].get('PYTHONPATH', '').split(':')[0] == '/opt/wd')
            # gdb's environment is what the debugged program (and whatever it starts, a nested wayland-debug included) inherits: ours, with the two
            # documented search paths extended - nothing else added, nothing removed
            env = captured[0][1]
            special = ('PYTHONPATH', 'LD_LIBRARY_PATH')
            ctx.check('the program under GDB runs in our environment (only PYTHONPATH and LD_LIBRARY_PATH are extended)',
                      env is not None and {k: v for k, v in env.items() if k not in special} == {k: v for k, v in os.environ.items() if k not in special}
                      and env.get('LD_LIBRARY_PATH', '') == os.environ.get('LD_LIBRARY_PATH', ''))
    finally:
        runner.subprocess, runner.verify_gdb_available = saved


def twin(ctx, case):
    split(ctx, case)
    ctx.check('reachability twin (must be violated)', False)


def obligations(tier):
    import itertools
    kinds = [2, 3, 4, '--run', '--gdb', ''] if tier == 'quick' else [1, 2, 3, 4, 5, '--run', '--gdb', '', '-g']
    n = 3 if tier == 'quick' else 3
    cases = []
    for k in range(0, n + 1):
        for ks in itertools.product(kinds, repeat=k):
            cases.append(tuple(ks))
    if tier != 'quick':
        for ks in itertools.product([2, 3, '--gdb'], repeat=4):
            cases.append(tuple(ks))
    bounds = '<= %d words after the program name; each word: %s (numbers = that many arbitrary printable ASCII characters)' % (n if tier == 'quick' else 4, ', '.join(repr(k) for k in kinds))
    return [
        Ob('split-at-first-marker', 'symx', '_split_command vs the specification of markers (own word / last letter of a single-dash cluster), words with symbolic characters', FUNCS[:3], bounds, split,
           cases=cases, stubs=['words are SWord proxies (list of symbolic code points)'], outside='clusters with r/g before their last letter (usage error); non-ASCII words'),
        Ob('select-mode', 'symx', 'exactly one of run / gdb / load / pipe / in-GDB', FUNCS[3:4], 'all 3 x 2 x 3 x 2 combinations', select_mode, cases=[None], stubs=['check_gdb stubbed']),
        Ob('values-like-markers', 'symx', 'the bare words r / g / run / gdb as values of our options are values, never the marker', FUNCS[:3], '4 words x 5 options x marker later or not', values_like_markers, cases=[None]),
        Ob('parse-args-forwarding', 'symx', 'real parse_args: forwarded words (symbolic, or spelled like our options) come back as the identical objects; our side is interpreted', FUNCS[4:5],
           '5 left parts x 6 marker spellings x 5 forwarded vectors', parse_args_forwarding, cases=[None], stubs=['check_gdb stubbed', 'stdout/stderr captured']),
        Ob('main-block', 'symx', 'main.py run as __main__ with the real sys.argv handling: verbosity / colour / mode from our words only, forwarded words verbatim, no chatter caused by the program\'s words',
           FUNCS[4:5] + ['main:__main__'], '9 x 4 x 6 argument vectors', main_block, cases=[None], stubs=['run_program / run_gdb / protocol.load_all replaced by recorders']),
        Ob('malformed-matchers', 'symx', '-f/-b values are parsed as matchers; malformed ones raise', FUNCS[4:5], '4 option spellings x 18 texts (9 malformed, 9 well-formed incl. values starting with @ * ! [ .)', bad_matchers, cases=[None]),
        Ob('identifier-language', 'smt', 'the words accepted as identifiers in -f/-b values = the documented identifier language (a malformed name is reported, not ignored)', ['core.matcher:identifier_matcher', 'core.matcher:identifier_re'] + FUNCS[4:5],
           'words of any length over printable ASCII without the structural characters %s, plus one non-ASCII letter and digit' % STRUCTURAL, identifier_language, cases=[None], replay=replay_identifier),
        Ob('gdb-quoting', 'symx', 'run_gdb: words reach the in-GDB sys.argv literal only through repr(); forwarded words verbatim after `gdb -ex <cmd>`', FUNCS[5:6],
           '0..3 opaque words (any content); replay on %d hostile concrete words' % len(HOSTILE), gdb_quoting, cases=[0, 1, 2, 3], stubs=['subprocess replaced by a recorder', 'verify_gdb_available stubbed']),
        Ob('run-mode-forwarding', 'symx', 'run mode: the words after -r reach the started program verbatim, as one argv entry each (the C13 environment model, child part)',
           ['backends.libwayland_debug_output.runner:_Subprocess.run', 'backends.libwayland_debug_output.runner:run_program', 'frontends.tui.arguments:parse_args'],
           '4 argv shapes (3 words incl. option look-alikes, 1 word, 1 word with spaces, words with quotes and shell characters) x built directly or through the real command line', c13.modes,
           cases=[(1, 0, 'child'), (0, 0, 'child')], stubs=['see C13']),
        Ob('split-reachable', 'symx', 'reachability twin', FUNCS[:3], '', twin, cases=[(3, 2)], expect_cex=True),
    ]
