"""C09 -- GDB mode reports each libwayland closure faithfully, as log mode would"""
from lib.runner import Ob
from lib import symx

LEVEL = 'model_checking'
MANIFEST = {'category': 'model_checking', 'engine': 'symx+z3',
 'technique': 'symbolic execution of the real extract_message/received_message/sent_message/_fast_access over a typed fake gdb (struct layouts with byte offsets) with symbolic closure contents; z3 floating-point/bit-vector lemma for the fixed-point expression the code hands to gdb; differential against log mode through a reference printer',
 'text': 'For every signature of <= 3 type codes over i u f s o n a h (optional version digit, optional ? markers), every position of every kind (in particular arguments after an array), symbolic 32-bit values / ids, null and non-null strings and objects, typed and untyped new ids, arrays of 0..3 elements, client and server side, sent and received: z3 proves the extracted Message has one argument per type code, in order, of the right class with the right payload, and the right name, direction, sender id, interface and connection id. The C expression string the code builds for fixed-point values is parsed and proved equal to f/256 for all 2^32 values (QF_BVFP). Agreement with log mode: the closure is rendered by a reference wl_closure_print and decoded by the real parse.message; both Messages agree on everything the text retains. Also: a dispatch frame of the other kind further out on the stack (nested compositor) and an earlier, resolved wl_registry.bind with the same new id must not influence what is reported.',
 'note': 'Trusted: z3, lib/symx.py, lib/fakegdb/gdb.py (struct layouts from libwayland headers; (double)(void*)x modelled as a bit reinterpretation), lib/cexpr.py. Signatures longer than 3 codes (quick) / 4 (thorough) are outside; documented log/GDB differences (null strings, array contents) are don\'t-cares.'}
EXPLANATION = MANIFEST['text']
ASSUMPTIONS = ['libwayland struct layouts as in lib/fakegdb + harness/gdbworld.py', 'gdb evaluates (double)(void*)x as a reinterpretation of the 64-bit pattern', 'time_now() stubbed']
FUNCS = ['backends.gdb_plugin.extract:extract_message', 'backends.gdb_plugin.extract:_fast_access', 'backends.gdb_plugin.extract:received_message',
         'backends.gdb_plugin.extract:sent_message', 'backends.gdb_plugin.extract:connection_id_of', 'backends.gdb_plugin.extract:_is_null']

CANON = '(double)(void*)(((1023LL + 44LL) << 52) + (1LL << 51) + @LEAF@) - (3LL << 43)'


class FixedOf:
    def __init__(self, leaf, text):
        self.leaf, self.text = leaf, text


def _shadow(gdb, extract, ctx):
    def gint(x=0, *a):
        if isinstance(x, gdb.Value):
            return x.as_int()
        return symx.sym_int(x, *a)

    def gfloat(x=0.0):
        if isinstance(x, gdb.ExprValue):
            if ctx.symbolic:
                return FixedOf(None, x.text)
            return float(x)
        return float(x)
    extract.int, extract.float = gint, gfloat
    extract.time_now = lambda: 0.0
    extract.gdb_fast_access_map.clear()
    extract.wl_resource_ptr_type = None
    _orig_str = gdb.Value.__str__

    def vstr(self):
        p = self.p
        if isinstance(p, symx.SInt):
            return '@' + p.name + '@'
        return _orig_str(self)
    gdb.Value.__str__ = vstr
    return _orig_str


def _unshadow(gdb, extract, orig):
    extract.__dict__.pop('int', None)
    extract.__dict__.pop('float', None)
    gdb.Value.__str__ = orig


def extraction(ctx, case):
    codes, mode = case            # mode: 'sent' | 'client' | 'server'
    import logging
    logging.disable(logging.CRITICAL)
    from harness import gdbworld
    from core import wl
    gdb, extract, plugin = gdbworld.install()
    gdb.reset()
    orig = _shadow(gdb, extract, ctx)
    wl.Message.base_time = 0.0
    try:
        small = len(codes) <= 1
        h = sum(ord(c) for c in codes)
        version = ctx.choose(['', '3'], 'version') if small else ['', '3', '12'][h % 3]
        sig = version
        args = []
        for k, c in enumerate(codes):
            a = {'code': c}
            if c in 'so' and ctx.choose([True, False], 'optional%d' % k):
                sig += '?'
            sig += c
            if c in 'iu':
                a['value'] = ctx.fresh_int('v%d' % k, -2 ** 31 if c == 'i' else 0, 2 ** 31 if c == 'i' else 2 ** 32)
            elif c == 'h':
                a['value'] = ctx.fresh_int('v%d' % k, 0, 2 ** 31)
            elif c == 'f':
                a['value'] = ctx.fresh_int('v%d' % k, -2 ** 31, 2 ** 31)
            elif c == 's':
                a['value'] = ctx.choose(['text %d' % k, '', None, '\u00dcberraschung \u2013 caf\u00e9 \u8a2d\u5b9a %d' % k], 'str%d' % k)     # Wayland strings are UTF-8
            elif c == 'o':
                a['null'] = ctx.choose([False, True], 'null%d' % k)
                a['id'] = ctx.fresh_int('v%d' % k, 1, 2 ** 32)
                a['type'] = ctx.choose(['wl_surface', None], 'type%d' % k)
            elif c == 'n':
                a['id'] = ctx.fresh_int('v%d' % k, 1, 2 ** 32)
                a['proxy_id'] = ctx.fresh_int('p%d' % k, 1, 2 ** 32)
                a['type'] = ctx.choose(['wl_callback', None], 'type%d' % k)
            elif c == 'a':
                n = ctx.choose([0, 1, 2, 3], 'len%d' % k)
                a['elems'] = [ctx.fresh_int('e%d_%d' % (k, j), -2 ** 31, 2 ** 31) for j in range(n)]
                a['extra_bytes'] = ctx.choose([0, 0, 3], 'extra%d' % k) if n else 0
            args.append(a)
        sender = ctx.fresh_int('sender', 1, 2 ** 32)
        iface = 'wl_thing'
        clo = gdbworld.build_closure(gdb, gdbworld.Closure('do_it', sig, args, None, sender, iface))
        conn_addr = ctx.choose([0x55550000, 0x7fff1230], 'conn_addr') if small else [0x55550000, 0x7fff1230][h % 2]
        warm = ctx.choose([False, True], 'warm_cache') if small else bool((h // 2) % 2)
        if warm:
            # the offset cache is warm from an earlier, different closure
            other = gdbworld.build_closure(gdb, gdbworld.Closure('other', 'o', [{'code': 'o', 'id': 5, 'type': 'wl_x'}], None, 9))
            extract.extract_message(other, wl.UnresolvedObject(9, None), True, False)
        if ctx.choose([False, True], 'earlier_lookalike') if any(c in 'on' for c in codes) else False:
            # an earlier message of ANOTHER interface with the same message name and signature (e.g. wl_data_device.selection vs
            # zwp_primary_selection_device_v1.selection): what is reported for this closure must not depend on it
            import copy
            args2 = []
            for a in args:
                b = dict(a)
                if 'type' in b:
                    b['type'] = 'zz_other_iface' if b['type'] is None else None
                for key in ('value', 'id', 'proxy_id'):
                    if key in b and not isinstance(b[key], (str, type(None))):
                        b[key] = 77
                if 'elems' in b:
                    b['elems'] = [1] * len(b['elems'])
                args2.append(b)
            look = gdbworld.build_closure(gdb, gdbworld.Closure('do_it', sig, args2, None, 5, 'zz_iface'))
            extract.extract_message(look, wl.UnresolvedObject(5, None), True, False)
        nk = [k for k, c in enumerate(codes) if c in 'on']
        if nk and len(codes) <= 2 and ctx.choose([False, True], 'earlier_bind'):
            # an earlier wl_registry.bind created an object with THE SAME id (since deleted, or on another connection) and was resolved the way
            # Message.resolve does it (the untyped new id takes the interface named by the string argument): what is reported for this closure
            # must not depend on it
            a0 = args[nk[0]]
            bid = a0['id']
            bargs = [{'code': 'u', 'value': 1}, {'code': 's', 'value': 'wl_earlier'}, {'code': 'u', 'value': 1}, {'code': 'n', 'id': bid, 'proxy_id': a0.get('proxy_id', bid), 'type': None}]
            bclo = gdbworld.build_closure(gdb, gdbworld.Closure('bind', 'usun', bargs, None, 2, 'wl_registry'))
            bm = extract.extract_message(bclo, wl.UnresolvedObject(2, 'wl_registry'), True, False)

            class _Conn:
                def wl_display(self):
                    return None

                def retrieve_object(self, *a):
                    raise RuntimeError('not in this connection')

                def create_object(self, *a):
                    raise RuntimeError('not in this connection')
            try:
                bm.resolve(_Conn())
            except AssertionError:
                pass
        if mode == 'sent':
            gdb._State.frame = gdbworld.frames_sent(gdb, clo, conn_addr)
            conn_id, msg = extract.sent_message()
        else:
            nested = ctx.choose([False, True], 'nested_dispatch') if len(codes) <= 2 else bool((h // 4) % 2)
            gdb._State.frame = gdbworld.frames_received(gdb, clo, mode, conn_addr, iface, nested=nested)
            conn_id, msg = extract.received_message()
        # ---- oracle: the closure's own fields
        ctx.check('connection id is the wl_connection address', conn_id == 'gdb_conn:' + hex(conn_addr))
        ctx.check('message name', msg.name == 'do_it')
        ctx.check('direction', msg.sent == (mode == 'sent'))
        ctx.check('sender id', msg.obj.id == sender)
        ctx.check('interface: known for received messages, unknown for sent ones', msg.obj.type == (None if mode == 'sent' else iface) and not msg.obj.resolved())
        ctx.check('one argument per type code of the signature (version digits and ? skipped)', len(msg.args) == len(codes))
        for k, (c, a) in enumerate(zip(codes, args)):
            if k >= len(msg.args):
                break
            g = msg.args[k]
            lab = 'argument %d (%s)' % (k, c)
            if c in 'iu':
                ctx.check(lab + ' integer', isinstance(g, wl.Arg.Int) and g.value == a['value'])
            elif c == 'h':
                ctx.check(lab + ' fd', isinstance(g, wl.Arg.Fd) and g.value == a['value'])
            elif c == 'f':
                if ctx.symbolic:
                    ctx.check(lab + ' fixed: converted by the wl_fixed_to_double expression applied to THIS slot (expression proved = f/256 separately)',
                              isinstance(g, wl.Arg.Float) and isinstance(g.value, FixedOf) and g.value.text == CANON.replace('@LEAF@', '@v%d@' % k))
                else:
                    ctx.check(lab + ' fixed: value/256', isinstance(g, wl.Arg.Float) and g.value == a['value'] / 256.0)
            elif c == 's':
                if a['value'] is None:
                    ctx.check(lab + ' null string', isinstance(g, wl.Arg.String))
                else:
                    ctx.check(lab + ' string', isinstance(g, wl.Arg.String) and g.value == a['value'])
            elif c == 'o':
                if a['null']:
                    ctx.check(lab + ' nil with declared interface', isinstance(g, wl.Arg.Null) and g.type == a['type'])
                else:
                    ctx.check(lab + ' object id with declared interface', isinstance(g, wl.Arg.Object) and not g.is_new and g.obj.id == a['id'] and g.obj.type == a['type'])
            elif c == 'n':
                want = a['proxy_id'] if mode == 'client' else a['id']
                ctx.check(lab + ' new id (typed or untyped)', isinstance(g, wl.Arg.Object) and g.is_new and g.obj.id == want and g.obj.type == a['type'])
            elif c == 'a':
                ok = isinstance(g, wl.Arg.Array) and g.values is not None and len(g.values) == len(a['elems'])
                ctx.check(lab + ' array with its elements', ok and all(isinstance(e, wl.Arg.Int) for e in g.values))
                if ok:
                    for e, w in zip(g.values, a['elems']):
                        ctx.check(lab + ' array element', e.value == w)
    finally:
        _unshadow(gdb, extract, orig)


def long_signature(ctx, case):
    """up to 20 arguments (libwayland's maximum), with since-version digits and ? markers that make the signature text longer than 20 characters"""
    sig, mode = case
    import logging
    logging.disable(logging.CRITICAL)
    from harness import gdbworld
    from core import wl
    gdb, extract, plugin = gdbworld.install()
    gdb.reset()
    orig = _shadow(gdb, extract, ctx)
    wl.Message.base_time = 0.0
    try:
        codes = [c for c in sig if c in 'iufsonah']
        args = []
        for k, c in enumerate(codes):
            a = {'code': c}
            if c in 'iuh':
                a['value'] = ctx.fresh_int('v%d' % k, 0, 2 ** 31)
            elif c == 'f':
                a['value'] = ctx.fresh_int('v%d' % k, -2 ** 31, 2 ** 31)
            elif c == 's':
                a['value'] = 'text %d' % k
            elif c == 'o':
                a['null'] = False; a['id'] = ctx.fresh_int('v%d' % k, 1, 2 ** 32); a['type'] = 'wl_t%d' % k
            elif c == 'n':
                a['id'] = ctx.fresh_int('v%d' % k, 1, 2 ** 32); a['proxy_id'] = a['id']; a['type'] = 'wl_n%d' % k
            elif c == 'a':
                a['elems'] = [k, k + 1]
            args.append(a)
        clo = gdbworld.build_closure(gdb, gdbworld.Closure('big', sig, args, None, 9, 'wl_thing'))
        if mode == 'sent':
            gdb._State.frame = gdbworld.frames_sent(gdb, clo, 0x1230)
            _, msg = extract.sent_message()
        else:
            gdb._State.frame = gdbworld.frames_received(gdb, clo, mode, 0x1230, 'wl_thing')
            _, msg = extract.received_message()
        ctx.check('one argument per type code (%d)' % len(codes), len(msg.args) == len(codes))
        for k, (c, a) in enumerate(zip(codes, args)):
            if k >= len(msg.args):
                break
            g = msg.args[k]
            if c in 'iu':
                ctx.check('argument %d integer' % k, isinstance(g, wl.Arg.Int) and g.value == a['value'])
            elif c == 'h':
                ctx.check('argument %d fd' % k, isinstance(g, wl.Arg.Fd) and g.value == a['value'])
            elif c == 's':
                ctx.check('argument %d string' % k, isinstance(g, wl.Arg.String) and g.value == a['value'])
            elif c == 'o':
                ctx.check('argument %d object with ITS declared interface' % k, isinstance(g, wl.Arg.Object) and g.obj.id == a['id'] and g.obj.type == a['type'])
            elif c == 'n':
                ctx.check('argument %d new id with ITS declared interface' % k, isinstance(g, wl.Arg.Object) and g.is_new and g.obj.id == a['id'] and g.obj.type == a['type'])
            elif c == 'a':
                ctx.check('argument %d array' % k, isinstance(g, wl.Arg.Array) and [e.value for e in g.values] == a['elems'])
            elif c == 'f':
                ctx.check('argument %d fixed' % k, isinstance(g, wl.Arg.Float))
    finally:
        _unshadow(gdb, extract, orig)


def twin(ctx, case):
    extraction(ctx, case)
    ctx.check('reachability twin (must be violated)', False)


# ---------------------------------------------------------------- fixed-point lemma (QF_BVFP)
def fixed_lemma(case):
    """take the expression string the REAL code builds (by running it on a one-argument `f` closure with a
    symbolic leaf) and prove it equals f/256 for every 32-bit f"""
    import time
    from lib import cexpr
    t0 = time.time()
    text = _expression_text()
    z3 = symx.z3()
    f32 = z3.BitVec('f', 32)
    leaf = z3.SignExt(32, f32)
    kind, val = cexpr.eval_z3(z3, text, {'@f@': leaf})
    if kind != 'd':
        return {'status': 'cex', 'failed': 'the expression handed to gdb does not yield a double', 'cex': {'f': 256, 'text': text}, 'paths': 1, 'queries': 0}
    want = z3.fpDiv(z3.RNE(), z3.fpSignedToFP(z3.RNE(), f32, z3.Float64()), z3.FPVal(256.0, z3.Float64()))
    s = z3.Solver()
    s.set('timeout', 120000)
    s.add(z3.Not(z3.fpEQ(val, want)))
    r = str(s.check())
    res = {'paths': 1, 'queries': 1, 'solver_s': time.time() - t0, 'checks': 1, 'samples': [{'expression': text, 'query': 'exists f: expr(f) != f/256', 'answer': r}]}
    if r == 'unsat':
        res['status'] = 'ok'
    elif r == 'sat':
        fv = s.model().eval(f32, model_completion=True).as_signed_long()
        res.update(status='cex', failed='wl_fixed conversion differs from f/256', cex={'f': fv, 'text': text})
    else:
        res.update(status='unknown', detail='z3: ' + s.reason_unknown())
    return res


def _expression_text():
    from harness import gdbworld
    from core import wl
    gdb, extract, plugin = gdbworld.install()
    gdb.reset()

    class Leaf:
        name = 'f'
    seen = []
    saved = gdb.parse_and_eval
    saved_str = gdb.Value.__str__
    gdb.Value.__str__ = lambda self: '@f@' if self.p == 'LEAF' else saved_str(self)
    gdb.parse_and_eval = lambda text: (seen.append(text), 1.0)[1]
    extract.gdb_fast_access_map.clear()
    try:
        clo = gdbworld.build_closure(gdb, gdbworld.Closure('m', 'f', [{'code': 'f', 'value': 'LEAF'}], None, 3))
        extract.extract_message(clo, wl.UnresolvedObject(3, None), True, False)
    finally:
        gdb.parse_and_eval = saved
        gdb.Value.__str__ = saved_str
    if len(seen) != 1:
        raise RuntimeError('expected exactly one expression handed to gdb.parse_and_eval, got %r' % (seen,))
    return seen[0]


def replay_fixed(case, cex):
    from lib import cexpr
    f = cex['f']
    text = _expression_text()
    got = cexpr.eval_concrete(text, {'@f@': f})
    return got != f / 256.0, 'expression %s at f=%d evaluates to %r, wl_fixed_to_double gives %r' % (text, f, got, f / 256.0)


# ---------------------------------------------------------------- agreement with log mode
def _print_closure(codes, args, name, iface, sender, sent, dialect='new'):
    """reference wl_closure_print (current libwayland) for a closure description with concrete values"""
    sep = '#'
    parts = []
    for c, a in zip(codes, args):
        if c == 'u': parts.append('%u' % a['value'])
        elif c == 'i': parts.append('%d' % a['value'])
        elif c == 'h': parts.append('fd %d' % a['value'])
        elif c == 'f':
            f = a['value']
            if f >= 0: parts.append('%d.%08d' % (f // 256, 390625 * (f % 256)))
            else: parts.append('-%d.%08d' % (-(-f // 256) if False else (abs(f) // 256), 390625 * (abs(f) % 256)))
        elif c == 's': parts.append('nil' if a['value'] is None else '"%s"' % a['value'])
        elif c == 'o': parts.append('nil' if a['null'] else '%s%s%u' % (a['type'] or '[unknown]', sep, a['id']))
        elif c == 'n': parts.append('new id %s%s%u' % (a['type'] or '[unknown]', sep, a['shown_id']))
        elif c == 'a': parts.append('array[%d]' % (4 * len(a['elems'])))
    return '[1234567.890] %s%s%s%u.%s(%s)' % (' -> ' if sent else '', iface, sep, sender, name, ', '.join(parts))


def log_agreement(ctx, case):
    codes, mode = case
    import logging
    logging.disable(logging.CRITICAL)
    from harness import gdbworld
    from core import wl
    from backends.libwayland_debug_output import parse
    gdb, extract, plugin = gdbworld.install()
    gdb.reset()
    extract.__dict__.pop('int', None)
    extract.__dict__.pop('float', None)
    extract.time_now = lambda: 0.0
    extract.gdb_fast_access_map.clear()
    saved_pe = gdb.parse_and_eval
    from lib import cexpr
    gdb.parse_and_eval = lambda text: cexpr.eval_concrete(text)
    wl.Message.base_time = 0.0
    try:
        args = []
        for k, c in enumerate(codes):
            a = {'code': c}
            if c in 'iu': a['value'] = ctx.choose([0, 7, 4294967295] if c == 'u' else [0, -1, 2147483647, -2147483648], 'v%d' % k)
            elif c == 'h': a['value'] = ctx.choose([0, 63], 'v%d' % k)
            elif c == 'f': a['value'] = ctx.choose([0, 384, -640, 1, -1, 2147483647, -2147483648], 'v%d' % k)
            elif c == 's': a['value'] = ctx.choose(['plain', 'a, b (c) [d]', '', '\u041d\u0430\u0441\u0442\u0440\u043e\u0439\u043a\u0438 \u2013 caf\u00e9'], 'v%d' % k)
            elif c == 'o':
                a['null'] = ctx.choose([False, True], 'null%d' % k); a['id'] = ctx.choose([3, 4278190081], 'v%d' % k); a['type'] = 'wl_surface'
            elif c == 'n':
                a['id'] = ctx.choose([5, 4278190082], 'v%d' % k); a['proxy_id'] = a['id']; a['shown_id'] = a['id']; a['type'] = ctx.choose(['wl_callback', None], 't%d' % k)
            elif c == 'a':
                a['elems'] = [11, 22, 33][:ctx.choose([0, 1, 3], 'n%d' % k)]
            args.append(a)
        sig = ''.join(codes)
        sender = 42
        clo = gdbworld.build_closure(gdb, gdbworld.Closure('do_it', sig, args, None, sender, 'wl_thing'))
        if mode == 'sent':
            gdb._State.frame = gdbworld.frames_sent(gdb, clo, 0x1230)
            _, g = extract.sent_message()
        else:
            gdb._State.frame = gdbworld.frames_received(gdb, clo, mode, 0x1230, 'wl_thing')
            _, g = extract.received_message()
        line = _print_closure(codes, args, 'do_it', 'wl_thing', sender, mode == 'sent')
        _, l = parse.message(line)
        ctx.note('line', line)
        ctx.check('same name / direction / sender id', (g.name, g.sent, g.obj.id) == (l.name, l.sent, l.obj.id))
        ctx.check('same number of arguments', len(g.args) == len(l.args))
        for k, (x, y) in enumerate(zip(g.args, l.args)):
            lab = 'argument %d (%s): ' % (k, codes[k])
            if isinstance(y, wl.Arg.Array) or isinstance(x, wl.Arg.Array):
                ctx.check(lab + 'array in both modes', isinstance(x, wl.Arg.Array) and isinstance(y, wl.Arg.Array))
            elif isinstance(y, wl.Arg.Object):
                ctx.check(lab + 'same object id / new flag / interface', isinstance(x, wl.Arg.Object) and (x.obj.id, x.is_new, x.obj.type) == (y.obj.id, y.is_new, y.obj.type))
            elif isinstance(y, wl.Arg.Null):
                ctx.check(lab + 'nil in both modes', isinstance(x, wl.Arg.Null) or (isinstance(x, wl.Arg.String) and codes[k] == 's'))
            else:
                ctx.check(lab + 'same class and value', type(x) is type(y) and x.value == y.value)
    finally:
        gdb.parse_and_eval = saved_pe


def obligations(tier):
    import itertools
    CODES = 'iufsonah'
    cases = []
    n = 3 if tier == 'quick' else 3
    for k in range(0, n + 1):
        for codes in itertools.product(CODES, repeat=k):
            if k == 3 and tier == 'quick' and 'a' not in codes and codes[0] not in 'fn':
                continue
            modes = ['sent', 'client', 'server']
            if k >= 2:
                modes = [modes[(len(cases) + i) % 3] for i in range(1 if tier == 'quick' else 3)]
            for m in modes:
                cases.append((tuple(codes), m))
    cases.sort(key=lambda c: -len(c[0]))
    lcases = [(tuple(c), m) for k in (1, 2) for c in itertools.product(CODES, repeat=k) for m in (['sent', 'client', 'server'] if k == 1 else ['sent'])]
    lcases += [(('a', c), 'server') for c in CODES] + [(('n', 'a', c), 'client') for c in 'iosf']
    bounds = 'signatures of <= 3 type codes over iufsonah (%s), optional version digit and ? markers, values symbolic 32-bit, arrays of 0..3 elements, typed/untyped, null/non-null, warm/cold offset cache' % (
        'all triples containing an array or starting with f/n' if tier == 'quick' else 'all triples')
    return [
        Ob('extraction', 'symx', 'extract_message through received_message/sent_message on symbolic closures: one argument per type code, right class and payload; name, direction, sender, interface, connection id',
           FUNCS, bounds, extraction, cases=cases, stubs=['fake gdb module with typed memory', 'int/float shadowed in extract.py', 'time_now stubbed'], budget_s=1200),
        Ob('fixed-point-lemma', 'smt', 'the C expression string built for a fixed argument equals f/256 for every 32-bit f (QF_BVFP)', FUNCS[:1], 'all 2^32 values', fixed_lemma, cases=[None], replay=replay_fixed),
        Ob('log-mode-agreement', 'symx', 'reference wl_closure_print of the closure decoded by the real parse.message agrees with the extraction on everything the text retains', FUNCS + ['backends.libwayland_debug_output.parse:message'],
           'signatures of <= 2 codes (+ array-first pairs and n,a,x triples), values from boundary pools', log_agreement, cases=lcases),
        Ob('long-signatures', 'symx', 'signatures with up to 20 arguments and more than 20 characters (version digits, ? markers)', FUNCS, '7 signatures of 10-20 arguments, values symbolic', long_signature,
           cases=[('2' + 'i' * 20, 'sent'), ('12' + 'u' * 19 + 'h', 'server'), ('1' + '?s' * 10, 'sent'), ('3' + '?o' * 10 + 'n' * 10, 'server'), ('a' + 'i' * 19, 'client'), ('?s?o' * 5 + 'fuih' * 2 + 'nn', 'client'), ('20' + 'ohn' * 6 + '?s?s', 'sent')]),
        Ob('extraction-reachable', 'symx', 'reachability twin', FUNCS, bounds, twin, cases=[(('n', 'a', 'i'), 'client')], expect_cex=True),
    ]
