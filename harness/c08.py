"""C08 -- no input line is lost, reordered or altered; output keeps pace with input"""
import re
from lib.runner import Ob
from lib import symx

LEVEL = 'model_checking'
MANIFEST = {'category': 'model_checking', 'engine': 'symx+z3',
 'technique': 'exhaustive bounded exploration (symx choose) of line streams through the real parse.into_sink -> ConnectionManager -> Controller pipeline with a recording fake file; the passthrough text flow on an opaque symbolic line',
 'text': 'Every stream of <= 4 lines (quick) / <= 5 (thorough) over a pool of line kinds (well-formed messages on known and undescribed interfaces, messages whose name or argument count the shipped description does not know, chatter, blank, whitespace-only, a final line without newline), both --supress settings: the k-th output item is the k-th line\'s decoded message or its stripped text, passthrough items and only those vanish under --supress, at every readline() the output of all earlier lines is already written (so every truncation yields a prefix plus close notices), and only Closed notices follow EOF. Separately, for a non-message line of arbitrary content and length (opaque symbolic text) the item is exactly the prefix plus the stripped line. Gap separators (C16) count as notices; a delete_id more than an hour after the creation and chatter with backslashes, quotes, tabs and control characters are in the pool.',
 'note': 'Exhaustive within the bound (every path is a run of the real pipeline; the solver owns the choice points). Message decoding itself is C01; histories ill-formed in the sense of C02 are excluded. Trusted: lib/symx.py (opaque-text proxy: any string operation other than ==\'\', strip(), str() aborts the check).'}
EXPLANATION = MANIFEST['text']
ASSUMPTIONS = ['line pool as listed in the evidence; message contents are C01\'s subject', 'FakeTextIO.readline models file/pipe/stdin line delivery']
FUNCS = ['backends.libwayland_debug_output.parse:into_sink', 'backends.libwayland_debug_output.parse:Parser.parse_all', 'backends.libwayland_debug_output.parse:Parser.handle_message',
         'backends.libwayland_debug_output.parse:Parser.cleanup', 'core.output.output:Output.show', 'core.output.output:Output.unprocessed',
         'core.connection_manager:ConnectionManager.message', 'frontends.tui.controller:Controller.connection_got_new_message', 'core.wl.arg:Arg.Base.resolve',
         'core.wl.arg:Arg.Int.resolve', 'core.wl.arg:Arg.Null.resolve', 'core.wl.protocol:get_arg']

# every message line has a message name unique within the pool, so an output item can be attributed to its line
POOL = [
    ('msg', '[1000.100]  -> wl_display@1.get_registry(new id wl_registry@2)', 'get_registry'),
    ('msg', '[1000.200]  -> wl_display@1.sync(new id wl_callback@3)', 'sync'),
    ('msg', '[3700000.300] wl_display@1.delete_id(3)', 'delete_id'),        # more than an hour after the creation: long lifespans, large times
    ('msg', '[1000.400] zz_unknown_iface@7.anything(1, "a, b", nil)', 'anything'),
    ('msg', '[1000.500]  -> wl_display@1.frobnicate(3)', 'frobnicate'),            # name not in the shipped description of a known interface
    ('msg', '[1000.600] wl_display@1.error(wl_display@1, 2, "x", 4, 5)', 'error'),   # more arguments than described
    ('msg', '[1000.700]  -> wl_display@1.get_registry2(new id wl_registry@9)', 'get_registry2'),
    ('msg', '[1000.750] wl_display@1.frobnicate_nil(nil, 4)', 'frobnicate_nil'),                   # nil / enum-less int on an undescribed message
    ('msg', '[1000.760] wl_display@1.delete_id2(3, nil, wl_display@1)', 'delete_id2'),
    ('msg', '[1000.770]  -> zz_unknown_iface@7.make(new id [unknown]@44, 1)', 'make'),             # an untyped new id outside wl_registry.bind
    ('msg', '[1000.780]  -> zz_unknown_iface@7.set_title("")', 'set_title'),                       # a message the connection-naming code chokes on
    ('msg', '[1000.790] zz_unknown_iface@4294967295.poke(zz_unknown_iface@4294967295, 4294967295, -2147483648)', 'poke'),   # the last valid id and the integer extremes
    ('text', 'hello from the program', None),
    ('text', 'C:\\dir\\x "q" \'s\' tab\tin \x07 bell \x1b[1m esc', None),     # backslashes, quotes, inner tab, control characters: passed through unaltered
    ('text', 'form\x0cfeed, vertical\x0btab, next\x85line, line\u2028separator, file\x1cseparator and a\rcarriage return inside', None),   # one line, whatever str.splitlines thinks
    ('text', '', None),
    ('text', '   \t ', None),
    ('text', '  indented chatter [not a message] (really)  ', None),
    ('text', '[1000.800] looks like a stamp but is not a message', None),
    ('msg', '[1000.850] zz_unknown_iface@7.long_one("' + 'x' * 5000 + '", 1)', 'long_one'),       # a line longer than any read-size limit
    ('text', 'chatter ' + 'y' * 9000, None),
    # a message line the writer did not finish (cut off inside a string / after the parenthesis): chatter like any other, and the next line is its own line
    ('text', '[1000.900]  -> zz_unknown_iface@7.set_title("cut off in the midd', None),
    ('text', '[1000.910] zz_unknown_iface@7.poke(', None),
]
# the two connections variant (current dialect with connection tags)
POOL2 = [
    ('msg', '[1000.100] <1>  -> wl_display#1.get_registry(new id wl_registry#2)', 'get_registry'),
    ('msg', '[1000.200] <2>  -> wl_display#1.sync(new id wl_callback#3)', 'sync'),
    ('msg', '[1000.300] <1> wl_display#1.delete_id(2)', 'delete_id'),
    ('msg', '[1000.400] <2> wl_callback#3.done(77)', 'done'),
    ('text', 'chatter', None),
    ('text', '', None),
]


class FakeTextIO:
    def __init__(self, lines, out):
        self.lines = lines
        self.i = 0
        self.out = out
        self.seen = []     # number of output items at each readline() call

    def readline(self, size=-1):
        self.seen.append(len(self.out.items))
        if self.i >= len(self.lines):
            return ''
        l = self.lines[self.i]
        if size is not None and 0 <= size < len(l):
            # a bounded read returns a piece of the line; the rest is read next
            self.lines[self.i] = l[size:]
            return l[:size]
        self.i += 1
        return l

    def seekable(self):
        return False


_loaded = []


def _load_protocols():
    from core.wl import protocol
    from core.output import Output, stream
    if not _loaded or not protocol.interfaces:
        protocol.interfaces.clear()
        protocol.load_all(Output(False, False, stream.Null(), stream.Null()))
        _loaded.append(1)


def stream(ctx, case):
    import logging
    logging.disable(logging.CRITICAL)
    pool_id, n, supress = case[:3]
    first = case[3] if len(case) > 3 else None
    from core import wl, matcher
    from core.connection_manager import ConnectionManager
    from core.output import Output
    from frontends.tui.controller import Controller
    from backends.libwayland_debug_output import parse
    from lib.stubs import RecStream
    from core import util
    _load_protocols()
    pool = POOL if pool_id == 1 else POOL2
    util.color_output = False
    wl.Message.base_time = None
    idx = [ctx.choose(list(range(len(pool))), 'line%d' % k) if (k > 0 or first is None) else first for k in range(n)]
    if len(case) > 4:
        # a scripted beginning (the same chatter line many times over, with messages in between), then the chosen lines
        idx = list(case[4]) + idx
        n = len(idx)
    # well-formedness in the sense of C02: an id is created once (until deleted) and deleted only while it exists
    alive = set()
    creates = {'get_registry': 2, 'get_registry2': 9, 'sync': 3}
    deletes = {'delete_id': 3 if pool_id == 1 else 2}
    for i in idx:
        name = pool[i][2]
        if name in creates:
            if creates[name] in alive:
                ctx.assume(False)
            alive.add(creates[name])
        elif name in deletes:
            if deletes[name] not in alive:
                ctx.assume(False)
            alive.discard(deletes[name])
        elif name == 'done' and 3 not in alive:
            ctx.assume(False)
    last_newline = ctx.choose([True, False], 'last_newline') if n > 0 else True
    lines = [pool[i][1] + '\n' for i in idx]
    n_lines = len(lines)
    if n > 0 and not last_newline:
        lines[-1] = lines[-1][:-1]
        if lines[-1] == '':
            ctx.assume(False)      # an empty final fragment is EOF, not a line
    out, err = RecStream(), RecStream()
    output = Output(False, not supress, out, err)
    mgr = ConnectionManager()
    Controller(output, mgr, matcher.always, matcher.never)
    f = FakeTextIO(lines, out)
    parse.into_sink(f, output, mgr)
    # ---- the expected item sequence
    items = list(out.items)
    # notices: connection opened / closed, and the separator the live view prints before a message that comes more than a second after the
    # previous one (C16's subject; it belongs to the message line that follows it)
    is_notice = lambda s: s.startswith('New ') or s.startswith('Closed ') or (s.lstrip().startswith('\u2500\u2500\u2500\u2524') and s.rstrip().endswith('\u251c\u2500\u2500\u2500'))
    body = [(k, s) for k, s in enumerate(items) if not is_notice(s)]
    expected = []
    for i in idx:
        kind, text, name = pool[i]
        if kind == 'msg':
            expected.append(('msg', name, text))
        elif not supress:
            expected.append(('text', '       |  ' + text.strip(), text))
    ctx.check('no error output', err.items == [])
    ctx.check('exactly one item per input line (passthrough lines omitted under --supress, and only those)', len(body) == len(expected))
    msg_re = re.compile(r'^\s*-?\d+\.\d{4} \w*: ')
    for (k, s), e in zip(body, expected):
        if e[0] == 'text':
            ctx.check('non-message line passed through unaltered (stripped): %r' % e[2], s == e[1])
        else:
            ctx.check('line %r comes out as a decoded message, in its place' % e[2], msg_re.match(s) is not None and ('.' + e[1] + '(') in s)
    # ---- pacing: at the i-th readline() the items of lines 0..i-1 are already written
    ctx.check('one read per line plus the EOF probe', len(f.seen) == n + 1)
    produced = 0
    for i in range(min(len(f.seen), n + 1)):
        upto = [s for s in items[:f.seen[i]] if not is_notice(s)]
        ctx.check('output keeps pace: before reading line %d, the %d items of the earlier lines are out' % (i, produced), len(upto) == produced)
        if i < n:
            kind = pool[idx[i]][0]
            produced += 1 if (kind == 'msg' or not supress) else 0
    # ---- notices: each connection announced once before its first message; after EOF only Closed notices
    after_eof = items[f.seen[-1]:] if f.seen else []
    ctx.check('after EOF only connection-closed notices follow', all(s.startswith('Closed ') for s in after_eof))
    news = [s for s in items if s.startswith('New ')]
    closed = [s for s in items if s.startswith('Closed ')]
    conns = set()
    for i in idx:
        if pool[i][0] == 'msg':
            conns.add(pool[i][1][11:14] if pool_id != 1 else 'PARSED')
    ctx.check('one New and one Closed notice per connection seen', len(news) == len(conns) and len(closed) == len(conns))
    ctx.note('stream', [pool[i][1] for i in idx])


def passthrough_flow(ctx, case):
    """an arbitrary line (opaque text: any content, any length; only its emptiness before/after stripping is
    visible) that neither regex matches: the single output item is the prefix followed by exactly the
    stripped line; EOF is only the empty read"""
    import logging
    logging.disable(logging.CRITICAL)
    from backends.libwayland_debug_output import parse
    from core.output import Output
    from core import util
    from lib.stubs import RecStream
    util.color_output = False
    supress = case

    class NoMatch:
        def search(self, text):
            return None
        match = search

    class P:
        out_msg_re = NoMatch()
        in_msg_re = NoMatch()
        arg_re = NoMatch()

    class Sink:
        calls = 0

        def open_connection(self, *a):
            Sink.calls += 1

        def close_connection(self, *a):
            Sink.calls += 1

        def message(self, *a):
            Sink.calls += 1
    blank = ctx.choose([False, True], 'only_whitespace')
    if ctx.symbolic:
        class Line(symx.SStr):
            def strip(self, *a):
                return symx.SStr('line.strip()', nonempty=not blank)
        line = Line('line', nonempty=True)       # a read that returned something (possibly only a newline / blanks)
    else:
        line = ' \n' if blank else '  some \\ text\twith \' " quotes \u00e9 \n'
    saved = parse.WlPatterns.instance
    parse.WlPatterns.instance = P()
    try:
        out, err = RecStream(), RecStream()
        f = FakeTextIO([line], out)
        parse.into_sink(f, Output(False, not supress, out, err), Sink())
    finally:
        parse.WlPatterns.instance = saved
    ctx.check('the line is read once, then EOF is probed', len(f.seen) == 2)
    ctx.check('nothing is routed to the connections', Sink.calls == 0)
    ctx.check('no error output', err.items == [])
    if supress:
        ctx.check('--supress: nothing shown', out.items == [])
    else:
        stripped = symx.opaque_placeholder('line.strip()') if ctx.symbolic else line.strip()
        ctx.check('the item is the prefix plus exactly the stripped line', out.items == ['       |  ' + stripped])


def twin(ctx, case):
    stream(ctx, case)
    ctx.check('reachability twin (must be violated)', False)


def obligations(tier):
    n1 = 3 if tier == 'quick' else 4
    cases = []
    for n in range(0, n1 + 1):
        for supress in (False, True):
            if n >= 3:
                # the long streams are split by their first line so that they spread over the cores
                cases += [(1, n, supress, f) for f in range(len(POOL)) if POOL[f][2] != 'delete_id']    # a stream cannot begin with the deletion of an object never created
            else:
                cases.append((1, n, supress))
    for n in range(1, (4 if tier == 'quick' else 5) + 1):
        for supress in (False, True):
            cases.append((2, n, supress))
    # the same line of program output again and again (a warning per frame, blank lines), with and without messages in between
    texts = [k for k, e in enumerate(POOL) if e[0] == 'text' and len(e[1]) < 100]
    m1, m2 = 0, 1
    for supress in (False, True):
        for t in texts:
            cases.append((1, 1, supress, None, (t, t, t, t, t)))
            cases.append((1, 1, supress, None, (t, m1, t, t, m2, t, t, t)))
    cases.sort(key=lambda c: -c[1])
    bounds = 'pool 1 (%d line kinds, one connection): streams of <= %d lines; pool 2 (%d line kinds, two tagged connections): <= %d lines; last line with/without newline; --supress on/off; plus streams that begin with one chatter line 5-6 times over (messages in between)' % (
        len(POOL), n1, len(POOL2), 4 if tier == 'quick' else 5)
    return [
        Ob('stream-conservation', 'symx', 'item sequence, passthrough text, --supress, pacing at every readline, notices', FUNCS, bounds, stream, cases=cases,
           stubs=['FakeTextIO in place of the file/pipe', 'RecStream in place of stdout/stderr'], outside='ill-formed histories (C02 sense); message contents (C01)', budget_s=1500),
        Ob('stream-conservation-reachable', 'symx', 'reachability twin', FUNCS, bounds, twin, cases=[(1, 2, False)], expect_cex=True),
        Ob('passthrough-flow', 'symx', 'text flow of a non-message line: prefix + the stripped line, nothing else, for an opaque text of any content and length', FUNCS[:6],
           'one line of arbitrary content (opaque), emptiness before/after stripping symbolic, --supress on/off', passthrough_flow, cases=[False, True],
           stubs=['both message regexes replaced by no-match (what "not a message" means for real text is C01)']),
    ]
