"""C01 -- every libwayland debug line decodes to exactly the message it denotes.

E2 (lib/sre2smt): the LIVE compiled regexes of WlPatterns are translated to z3 regular expressions
and compared, as languages over strings of ANY length, with libwayland's printer grammar
(spec/printer_grammar.py).  Capture groups are compared through marker characters.
symx: the glue code (argument(), message()) is executed on opaque symbolic texts behind fake
pattern objects whose behaviour is exactly what the E2 obligations establish.
Every solver witness is replayed through the real parse.message() against the reference decoder.
"""
import os, sys, time, glob
from lib.runner import Ob
from lib import symx

LEVEL = 'model_checking'
MANIFEST = {'category': 'model_checking', 'engine': 'sre2smt+symx+z3',
 'technique': 'regular-language emptiness/inclusion queries (z3) between the live regexes and the printer grammar with capture-group markers; symbolic execution of argument()/message() over opaque texts; solver witnesses replayed through parse.message',
 'text': 'For lines of ANY length the solver shows that every printer line (both dialects, with/without queue and connection tags) is accepted by the right regex, rejected by the other one at position 0, and that every possible capture of the regex equals the denoted fields; the glue code is executed symbolically on opaque texts. Bounded parts: solver-generated end-to-end lines with one or two arguments. Decoding is history-free: after every decoded line the argument objects are relabelled the way Message.resolve does it, and the next line must come back unlabelled; fixed-point texts at the rounding boundaries of both dialects denote exactly their decimal value.',
 'note': 'Trusted: z3 sequence theory, lib/sre2smt.py (validated against Python re on every run), spec/printer_grammar.py (the specification). Alphabet: ASCII plus one representative non-ASCII member of each of \\d \\w \\s.'}
EXPLANATION = ('Regular-language emptiness/inclusion queries (z3 sequence theory, unbounded string length) between the regexes read from the live '
               'WlPatterns object and the printer grammar, with capture groups made visible by marker characters; symbolic execution of argument()/message() '
               'over opaque texts; CrossHair on the argument splitter; solver-generated lines replayed end to end through parse.message().')
ASSUMPTIONS = ['printer grammar as in spec/printer_grammar.py: interface/message names [a-z_][a-z0-9_]*, queue names [A-Za-z0-9 _-]*, string payload printable ASCII without " and backslash',
               '\\w \\d \\s are translated with their ASCII members plus one representative non-ASCII member each',
               'lines are stripped and contain no newline (Parser.parse_all)',
               'int()/float() of the denoted digit strings are trusted builtins',
               '`discarded` lines, `new id ...#nil`, queue names containing {}<> are outside the claim']
TRUSTED = ['lib/sre2smt.py translation (validated on every run against Python\'s re on the shipped logs and test inputs)']

FUNCS_RE = ['backends.libwayland_debug_output.parse:WlPatterns.__init__']
FUNCS_GLUE = ['backends.libwayland_debug_output.parse:message', 'backends.libwayland_debug_output.parse:argument',
              'backends.libwayland_debug_output.parse:argument_list', 'backends.libwayland_debug_output.parse:argument_list_strs',
              'backends.libwayland_debug_output.parse:end_of_str']


def _env():
    from lib import sre2smt
    from spec import printer_grammar as G
    from backends.libwayland_debug_output import parse
    Z = sre2smt.Z()
    return sre2smt, G, parse, Z, _LazyPatterns(parse)


class _LazyPatterns:
    """the live pattern object, constructed only by the obligations that read regexes (the end-to-end obligations do not need it)"""

    def __init__(self, parse):
        self._parse, self._p = parse, None

    def __getattr__(self, k):
        if self._p is None:
            self._p = self._parse.WlPatterns()
        return getattr(self._p, k)


def _res(status, Z, t0, **kw):
    d = {'status': status, 'paths': kw.pop('n', Z.queries), 'queries': Z.queries, 'solver_s': Z.solver_s, 'checks': kw.pop('checks', Z.queries)}
    d.update(kw)
    return d


def _token_line(dialect, token):
    return '[1234.567] a_b%s7.m_1(%s)' % ('@' if dialect == 'old' else '#', token)


def replay_line(case, cex):
    """replay of any C01 witness: decode the line with the real parse.message and with the reference"""
    from spec import printer_grammar as G
    notes = ''
    for prev in cex.get('earlier_lines', []):
        # lines decoded (and labelled by the rest of the tool) earlier in the same process
        G.compare(prev)
        notes = 'after decoding %d earlier line(s), the last of them %r:\n' % (len(cex['earlier_lines']), prev)
    ok, text = G.compare(cex['line'])
    return (not ok), notes + text


def _witness_loop(Z, x, constraints, to_line, label, rounds=1):
    """query; on sat replay the witness on the real decoder; a witness the real code handles as denoted
    is excluded and the query repeated (bounded), a witness it mishandles is the counterexample"""
    from spec import printer_grammar as G
    z3 = Z.z3
    cons = list(constraints)
    seen = []
    for _ in range(rounds):
        r, w = Z.check(cons, want_model_of=x)
        if r == 'unsat':
            return 'unsat', seen
        if r == 'unknown':
            return 'unknown', w
        plain, _groups = Z.split_marks(w)
        line = to_line(plain)
        ok, text = G.compare(line)
        if not ok:
            return 'cex', {'line': line, 'earlier_lines': G.relevant_history(line), 'witness': w, 'query': label}
        seen.append(line)
        cons.append(z3.Not(z3.InRe(x, z3.Re(z3.StringVal(w)))))
    return 'ambiguous', seen


# ------------------------------------------------------------------------------ E2 obligations
def run_args(case):
    """argument level: printer tokens vs arg_re (with Python's ordered alternation made explicit)"""
    dialect = case
    t0 = time.time()
    sre2smt, G, parse, Z, P = _env()
    z3 = Z.z3
    ast, anchors = sre2smt.from_pattern(P.arg_re)
    if not (anchors['begin'] and anchors['end']):
        return _res('error', Z, t0, detail='arg_re is expected to be anchored at both ends')
    alts = sre2smt.top_branch(ast)
    if alts is None:
        return _res('error', Z, t0, detail='arg_re is expected to be one top-level alternation')
    marks = G.PAYLOAD_GROUPS | G.KIND_ONLY_GROUPS
    unknown_groups = sre2smt.group_names(ast) - marks
    if unknown_groups:
        return _res('error', Z, t0, detail='arg_re has groups the specification does not know: %r' % sorted(unknown_groups))
    x = z3.String('x')
    prods = G.arg_productions(dialect, False)
    prods_m = G.arg_productions(dialect, True)
    plain_all = Z.re(ast, 'plain')
    notes = []
    # D1: every printer token is matched at all
    for k, p in prods.items():
        st, w = _witness_loop(Z, x, [z3.InRe(x, Z.re(p, 'plain')), z3.Not(z3.InRe(x, plain_all))], lambda t: _token_line(dialect, t), 'token of production %s not matched by arg_re' % k)
        if st == 'cex':
            return _res('cex', Z, t0, cex=w, failed='D1 printer token of kind %s is not accepted by arg_re' % k)
        if st != 'unsat':
            return _res('unknown', Z, t0, detail='D1 %s: %s %r' % (k, st, w))
    # D2: whichever way the real regex matches a printer token (ordered alternatives), it captures the denoted kind and payload
    effs = []
    for i, a in enumerate(alts):
        am = Z.re(a, 'marked', marks, G.KIND_ONLY_GROUPS)
        if i > 0:
            earlier = Z.erasepre(('alt', alts[:i]))
            am = z3.Intersect(am, z3.Complement(earlier))
        effs.append(am)
    R_eff = z3.Union(*effs)
    for k, p in prods.items():
        Gm = Z.re(prods_m[k], 'marked', marks, G.KIND_ONLY_GROUPS)
        st, w = _witness_loop(Z, x, [z3.InRe(x, R_eff), z3.InRe(x, Z.erasepre(p)), z3.Not(z3.InRe(x, Gm))], lambda t: _token_line(dialect, t),
                              'arg_re can capture something else than the denoted fields on a %s token' % k)
        if st == 'cex':
            return _res('cex', Z, t0, cex=w, failed='D2 token of kind %s is captured as something else' % k)
        if st == 'unknown':
            return _res('unknown', Z, t0, detail='D2 %s: %r' % (k, w))
        if st == 'ambiguous':
            notes.append('D2 %s: regex-level ambiguity that the real decoder resolves as denoted on %r' % (k, w))
    # vacuity: each production is non-empty and so is the regex
    for k, p in prods.items():
        r, w = Z.check([z3.InRe(x, Z.re(p, 'plain'))], want_model_of=x)
        if r != 'sat':
            return _res('error', Z, t0, detail='specification production %s is empty (vacuous)' % k)
    samples = [{'query': 'x in R_eff# and x in E(G_%s) and x not in G#_%s' % (k, k), 'answer': 'unsat'} for k in list(prods)[:3]]
    return _res('ok', Z, t0, samples=samples, detail='; '.join(notes))


def run_lines(case):
    """line level: acceptance, direction, field capture for one printer variant"""
    label, dialect, queue, conn = case
    t0 = time.time()
    sre2smt, G, parse, Z, P = _env()
    z3 = Z.z3
    x = z3.String('x')
    regs = {}
    for sent, pat in ((True, P.out_msg_re), (False, P.in_msg_re)):
        ast, anchors = sre2smt.from_pattern(pat)
        if anchors['begin'] or not anchors['end']:
            return _res('error', Z, t0, detail='message regexes are expected to be anchored at the end only (used with search)')
        regs[sent] = ast
    names = {'timestamp', 'conn', 'type', 'id', 'message', 'args'}
    for sent in (True, False):
        extra = sre2smt.group_names(regs[sent]) - names
        if extra:
            return _res('error', Z, t0, detail='message regex has groups the specification does not know: %r' % sorted(extra))
    notes = []
    ident = lambda t: t
    for sent in (True, False):
        d = 'sent' if sent else 'received'
        Gl = G.line(dialect, sent, queue, conn, mark=False)
        Gp = Z.re(Gl, 'plain')
        Rr = Z.re(regs[sent], 'plain')
        Rw = Z.re(regs[not sent], 'plain')
        # vacuity
        r, w = Z.check([z3.InRe(x, Gp)], want_model_of=x)
        if r != 'sat':
            return _res('error', Z, t0, detail='printer grammar variant is empty')
        # M1 the right regex matches the whole line from position 0
        st, w = _witness_loop(Z, x, [z3.InRe(x, Gp), z3.Not(z3.InRe(x, Rr))], ident, 'M1')
        if st == 'cex':
            return _res('cex', Z, t0, cex=w, failed='M1 a %s printer line (%s) is not matched by its regex' % (d, label))
        if st != 'unsat':
            return _res('unknown', Z, t0, detail='M1 %s %r' % (st, w))
        # M2 the other regex cannot match it from position 0
        st, w = _witness_loop(Z, x, [z3.InRe(x, Gp), z3.InRe(x, Rw)], ident, 'M2')
        if st == 'cex':
            return _res('cex', Z, t0, cex=w, failed='M2 a %s printer line (%s) is taken for the other direction' % (d, label))
        if st == 'unknown':
            return _res('unknown', Z, t0, detail='M2 %r' % (w,))
        if st == 'ambiguous':
            notes.append('M2 %s: both regexes match from position 0, real decoder still right on %r' % (d, w))
        # M3 the other regex matching LATER in the line (text inside a string argument): the real decoder must not be fooled
        st, w = _witness_loop(Z, x, [z3.InRe(x, Gp), z3.InRe(x, z3.Concat(Z.SIGMA_STAR, Rw))], ident, 'M3')
        if st == 'cex':
            return _res('cex', Z, t0, cex=w, failed='M3 line-like text inside a string argument of a %s line (%s) hijacks the decoding' % (d, label))
        if st == 'unknown':
            return _res('unknown', Z, t0, detail='M3 %r' % (w,))
        if st == 'ambiguous':
            notes.append('M3 %s: the other regex matches later in some lines; real decoder right on %d witnesses (for-all part: obligation message-assembly)' % (d, len(w)))
        # M4 field capture: any way the regex matches a printer line captures exactly the denoted fields
        Rm = Z.re(regs[sent], 'marked', names)
        Gm = Z.re(G.line(dialect, sent, queue, conn, mark=True), 'marked', names)
        st, w = _witness_loop(Z, x, [z3.InRe(x, Rm), z3.InRe(x, Z.erasepre(Gl)), z3.Not(z3.InRe(x, Gm))], ident, 'M4')
        if st == 'cex':
            return _res('cex', Z, t0, cex=w, failed='M4 fields of a %s line (%s) are captured wrongly' % (d, label))
        if st == 'unknown':
            return _res('unknown', Z, t0, detail='M4 %r' % (w,))
        if st == 'ambiguous':
            notes.append('M4 %s: capture ambiguity that Python resolves as denoted on %r' % (d, w))
    return _res('ok', Z, t0, samples=[{'query': 'x in R# and x in E(G[%s]) and x not in G#[%s]' % (label, label), 'answer': 'unsat'}], detail='; '.join(notes))


def run_envelope(case):
    """a line without a time-stamped iface@id.name(...) core is never reported as a message"""
    t0 = time.time()
    sre2smt, G, parse, Z, P = _env()
    R = sre2smt
    z3 = Z.z3
    x = z3.String('x')
    any_ = R.star(R.cls([], True))
    digit = R.cls(sre2smt.DIGIT)
    word = R.cls(sre2smt.WORD)
    space = R.cls(sre2smt.SPACE)
    env = R.cat(any_, R.ch('['), R.star(space), R.plus(digit), R.chars('.,'), R.plus(digit), R.star(space), R.ch(']'), any_,
                R.plus(word), R.chars('@#'), R.plus(digit), R.ch('.'), R.plus(word), R.ch('('), any_, R.ch(')'))
    E = Z.re(env, 'plain')
    for sent, pat in ((True, P.out_msg_re), (False, P.in_msg_re)):
        ast, anchors = sre2smt.from_pattern(pat)
        lang = z3.Concat(Z.SIGMA_STAR, Z.re(ast, 'plain')) if not anchors['begin'] else Z.re(ast, 'plain')
        if not anchors['end']:
            lang = z3.Concat(lang, Z.SIGMA_STAR)
        r, w = Z.check([z3.InRe(x, lang), z3.Not(z3.InRe(x, E))], want_model_of=x)
        if r == 'sat':
            return _res('cex', Z, t0, cex={'line': w, 'envelope': True}, failed='a line without a time-stamped message core is reported as a message')
        if r != 'unsat':
            return _res('unknown', Z, t0, detail=str(w))
        # the chatter of the shipped logs stays chatter
    return _res('ok', Z, t0, samples=[{'query': 'x in Sigma* R and x not in ENVELOPE', 'answer': 'unsat'}])


def replay_envelope(case, cex):
    import re
    from backends.libwayland_debug_output import parse
    from core import wl
    line = cex['line']
    saved = wl.Message.base_time
    try:
        try:
            parse.message(line)
            reported = True
        except RuntimeError:
            reported = False
        except Exception as e:
            return True, 'parse.message(%r) raised %s' % (line, type(e).__name__)
    finally:
        wl.Message.base_time = saved
    core = re.search(r'\[\s*\d+[.,]\d+\s*\].*\w+[@#]\d+\.\w+\(.*\)$', line) is not None
    if reported and not core:
        return True, 'line %r has no time-stamped iface@id.name(...) core but is reported as a message' % line
    return False, 'line %r: reported=%s core=%s' % (line, reported, core)


def run_validate(case):
    """translator validation: Python's re and the z3 translation must agree (membership and spans) on
    the shipped logs and the repository's own test inputs"""
    t0 = time.time()
    sre2smt, G, parse, Z, P = _env()
    z3 = Z.z3
    lines = []
    for f in sorted(glob.glob(os.path.join(os.environ.get('VERIF_REPO', '/repo'), 'resources/libwayland_debug_logs/*.log'))):
        ls = [l.strip() for l in open(f, errors='replace') if l.strip()]
        lines += ls if case == 'all' else ls[::7]
    lines += ['[1234567.890] some_object@12.some_message()', '[1234567.890]  -> some_object@12.some_message()', '', 'hello', '[12,5] a#1.b("x, y", -3, 1.5, nil)',
              '[0.001] {Default Queue} <12>  -> wl_display#1.sync(new id wl_callback#3)', '[0.001] {q} a#1.b(array[12], fd 3, new id [unknown]#4)']
    n = 0
    in_grammar = 0
    bad = []
    for name, pat in (('out', P.out_msg_re), ('in', P.in_msg_re)):
        ast, anchors = sre2smt.from_pattern(pat)
        Rp = Z.re(ast, 'plain')
        Rm = Z.re(ast, 'marked')
        for l in lines:
            m = pat.match(l)
            py = m is not None and m.end() == len(l)
            zz = Z.member(l, Rp)
            n += 1
            if py != zz:
                bad.append('%s regex on %r: python %s, translation %s' % (name, l, py, zz))
            if py:
                marked = Z.insert_marks(l, m)
                if not Z.member(marked, Rm):
                    bad.append('%s regex on %r: python\'s group spans are not in the marked translation' % (name, l))
                n += 1
    ast, anchors = sre2smt.from_pattern(P.arg_re)
    Rp = Z.re(ast, 'plain')
    toks = ['0', '-12', '1.5', '-0,25', '"a, b"', '""', 'nil', 'wl_surface@3', 'new id wl_callback#5', 'new id [unknown]@6', 'array', 'array[4]', 'fd 7', 'fd', 'x y', '1e5', 'a@b']
    for t in toks:
        py = P.arg_re.match(t) is not None
        zz = Z.member(t, Rp)
        n += 1
        if py != zz:
            bad.append('arg_re on %r: python %s, translation %s' % (t, py, zz))
    # the reference grammar accepts the message lines of the shipped logs (vacuity guard for the specification)
    for l in lines:
        if G.parse_line(l) is not None:
            in_grammar += 1
    if bad:
        return _res('error', Z, t0, detail='translator validation failed: ' + '; '.join(bad[:3]))
    if in_grammar < 20:
        return _res('error', Z, t0, detail='reference grammar accepts almost none of the shipped log lines (%d)' % in_grammar)
    return _res('ok', Z, t0, n=n, samples=[{'validated_strings': n, 'log_lines_in_reference_grammar': in_grammar, 'lines': len(lines)}])


def run_generated(case):
    """solver-generated printer lines (one per ordered pair of argument productions, with constraints that
    force non-trivial payloads) decoded by the real parse.message and compared with the reference"""
    label, dialect, queue, conn = case
    t0 = time.time()
    sre2smt, G, parse, Z, P = _env()
    R = sre2smt
    z3 = Z.z3
    x = z3.String('x')
    prods = G.arg_productions(dialect, False)
    n = 0
    samples = []
    hist = []       # every line decoded so far in this process (a witness is replayed after its two predecessors)
    tricky = ['caf\u00e9 \u2014 \u20ac \u65e5\u672c', 'total 1,250 EUR', 'rgb(12,34,56) 3.5,7', ', ', '(', ')', '[', ' -> ', '}', '  -> a#1.b(', '] a@1.b(', 'nil', 'new id ', '', '{x} <1>', ', "', '[0.1]  -> b@2.c(', '#', '@', 'bug #12 @home', ' <7> ', '<conn> ', ' {q} ']
    tricky = [t for t in tricky if '"' not in t or True]
    def strprod(i):
        t = tricky[i % len(tricky)].replace('"', "'")
        return R.cat(R.ch('"'), R.loop(G.STRCH, 0, 3), R.lit(t), R.loop(G.STRCH, 0, 2), R.ch('"'))
    for sent in (True, False):
        for k1, p1 in prods.items():
            for k2, p2 in list(prods.items()) + [(None, None)]:
                q1 = strprod(n) if k1 == 'str' else p1
                q2 = strprod(n + 5) if k2 == 'str' else p2
                args = R.cat(q1, R.lit(', '), q2) if q2 is not None else q1
                Gl = Z.re(G.line(dialect, sent, queue, conn, mark=False, args=args), 'plain')
                r, w = Z.check([z3.InRe(x, Gl)], want_model_of=x, timeout_ms=30000)
                if r != 'sat':
                    return _res('unknown', Z, t0, detail='could not generate a line for %s,%s' % (k1, k2))
                n += 1
                ok, text = G.compare(w)
                hist.append(w)
                if not ok:
                    return _res('cex', Z, t0, cex={'line': w, 'earlier_lines': G.relevant_history(w), 'query': 'generated %s line with arguments %s, %s' % (label, k1, k2)}, failed='generated printer line is decoded wrongly')
                if len(samples) < 3 and 'str' in (k1, k2):
                    samples.append(w)
    # the longest lists libwayland can print: 20 arguments, every production twice, in two orders
    for sent in (True, False):
        for order in (1, -1):
            ps = (list(prods.values()) * 2)[::order]
            ps = [strprod(3 + 2 * i) if p is prods['str'] else p for i, p in enumerate(ps)]
            seq = [ps[0]]
            for q in ps[1:]:
                seq += [R.lit(', '), q]
            Gl = Z.re(G.line(dialect, sent, queue, conn, mark=False, args=R.cat(*seq)), 'plain')
            r, w = Z.check([z3.InRe(x, Gl)], want_model_of=x, timeout_ms=60000)
            if r != 'sat':
                return _res('unknown', Z, t0, detail='could not generate a 20-argument line')
            n += 1
            ok, text = G.compare(w)
            hist.append(w)
            if not ok:
                return _res('cex', Z, t0, cex={'line': w, 'earlier_lines': G.relevant_history(w), 'query': 'generated %s line with 20 arguments' % label}, failed='generated printer line with 20 arguments is decoded wrongly')
    # empty argument list and the empty string
    for sent in (True, False):
        for args in (R.eps(), R.lit('""'), R.lit('"", ""'), R.lit('0, ""')):
            Gl = Z.re(G.line(dialect, sent, queue, conn, mark=False, args=args), 'plain')
            r, w = Z.check([z3.InRe(x, Gl)], want_model_of=x)
            n += 1
            ok, text = G.compare(w)
            hist.append(w)
            if not ok:
                return _res('cex', Z, t0, cex={'line': w, 'earlier_lines': G.relevant_history(w), 'query': 'generated line'}, failed='generated printer line is decoded wrongly')
    # fixed-point values as the printer renders them (old dialect: %f of wl_fixed_to_double, i.e. six decimals, rounded; new: %d.%08d, exact):
    # the value reported is the one the text denotes, to the last digit
    fx = (['0.003906', '0.007812', '-0.003906', '0.996094', '123.996094', '-8388608.000000', '8388607.996094', '0.000000', '1.500000']
          if dialect == 'old' else ['0.00390625', '-0.00390625', '0.99609375', '123.99609375', '-8388608.00000000', '8388607.99609375', '1.50000000'])
    for sent in (True, False):
        for f1 in fx:
            Gl = Z.re(G.line(dialect, sent, queue, conn, mark=False, args=R.cat(R.lit(f1), R.lit(', 7'))), 'plain')
            r, w = Z.check([z3.InRe(x, Gl)], want_model_of=x)
            if r != 'sat':
                return _res('unknown', Z, t0, detail='could not generate a line for fixed ' + f1)
            n += 1
            ok, text = G.compare(w)
            hist.append(w)
            if not ok:
                return _res('cex', Z, t0, cex={'line': w, 'earlier_lines': G.relevant_history(w), 'query': 'generated line with fixed-point argument ' + f1}, failed='generated printer line (fixed-point argument) is decoded wrongly')
    return _res('ok', Z, t0, n=n, samples=[{'generated_lines_decoded_as_denoted': n, 'examples': samples}])


# ------------------------------------------------------------------------------ symx glue
class FakeMatch:
    def __init__(self, groups, start=0):
        self.g = groups
        self._start = start

    def group(self, *names):
        if len(names) > 1:
            return tuple(self.group(n) for n in names)
        name = names[0] if names else 0
        if isinstance(name, int) and not isinstance(name, bool):
            if name == 0:
                raise symx.Unsupported('match.group(0)')
            keys = list(self.g)
            if not 1 <= name <= len(keys):
                raise IndexError('no such group')
            return self.g[keys[name - 1]]
        if name not in self.g:
            raise IndexError('no such group ' + str(name))
        return self.g[name]

    def start(self, *a):
        return self._start

    def end(self, *a):
        raise symx.Unsupported('match.end')

    def span(self, *a):
        raise symx.Unsupported('match.span')

    def groupdict(self, default=None):
        return {k: (default if v is None else v) for k, v in self.g.items()}

    def groups(self, default=None):
        return tuple(default if v is None else v for v in self.g.values())

    @property
    def lastgroup(self):
        # the named group closed last; in the live regexes the groups of one alternative close in the order they are written
        took = [k for k, v in self.g.items() if v is not None]
        return took[-1] if took else None

    @property
    def lastindex(self):
        took = [i + 1 for i, v in enumerate(self.g.values()) if v is not None]
        return took[-1] if took else None

    def __getitem__(self, k):
        return self.group(k)


class FakeRe:
    def __init__(self, fn):
        self.fn = fn
        self.calls = 0

    def match(self, text, *a):
        self.calls += 1
        return self.fn(text)
    search = match
    fullmatch = match


def _text(ctx, name, sample, minlen=1, num=None):
    """opaque text (symbolic) / a concrete sample (replay); num=(lo, hi): the text is a decimal numeral in that range (what the printer's
    %d / %u conversions emit) whose value is a symbolic integer as soon as the code compares it"""
    if ctx.symbolic:
        return symx.SStr(name, nonempty=True if minlen >= 1 else None, num=num)
    if num is not None and ctx.a['vars'].get(name + '#int') is not None:
        return str(ctx.a['vars'][name + '#int'])
    ne = True if minlen >= 1 else ctx.fresh_bool(name + '_nonempty')
    return sample if ne else ''


ARG_GROUPS = ['int', 'obj_type', 'obj_id', 'new_type', 'new_id', 'nil', 'str', 'float', 'array', 'fd']


def arg_dispatch(ctx, case):
    """argument() on a token of each printer production, the regex replaced by a fake whose captures are
    exactly what obligation D2 establishes: result class and payload must be the denoted ones, for
    arbitrary (opaque) payload texts including the empty string"""
    from backends.libwayland_debug_output import parse
    from core import wl
    kind = case
    saved = {k: parse.__dict__.get(k) for k in ('int', 'float')}
    parse.int, parse.float = symx.sym_int, symx.sym_float
    try:
        groups = {g: None for g in ARG_GROUPS}
        samples = {'int': '-12', 'fixed': '1,50000000', 'str': 'a, b', 'nil': 'nil', 'obj': 'wl_surface@3', 'new': 'new id wl_callback@5',
                   'newu': 'new id [unknown]@6', 'array': 'array', 'fd': 'fd 7'}
        tok = _text(ctx, 'token', samples[kind], num=(-2 ** 31, 2 ** 32) if kind == 'int' else None)
        if kind == 'int':
            groups['int'] = tok
        elif kind == 'fixed':
            groups['float'] = tok
        elif kind == 'str':
            payload = _text(ctx, 'payload', 'a, b', minlen=0)
            groups['str'] = payload
            if not ctx.symbolic:
                tok = '"' + payload + '"'
        elif kind == 'nil':
            groups['nil'] = tok
        elif kind == 'array':
            groups['array'] = _text(ctx, 'arr', 'array')
        elif kind == 'obj':
            groups['obj_type'], groups['obj_id'] = _text(ctx, 'otype', 'wl_surface'), _text(ctx, 'oid', '3', num=(1, 2 ** 32))
        elif kind == 'new':
            groups['new_type'], groups['new_id'] = _text(ctx, 'ntype', 'wl_callback'), _text(ctx, 'nid', '5', num=(1, 2 ** 32))
        elif kind == 'newu':
            groups['new_id'] = _text(ctx, 'nid', '6', num=(1, 2 ** 32))
        elif kind == 'fd':
            groups['fd'] = _text(ctx, 'fdv', '7', num=(-2 ** 31, 2 ** 31))
        present = ctx.choose([True, False], 'attr_present')
        class FakeP:
            pass
        p = FakeP()
        if present:
            p.arg_re = FakeRe(lambda t: FakeMatch(groups))
        else:
            p = parse.WlPatterns.lazy_get_instance()
            if ctx.symbolic:
                ctx.assume(False)
        a = parse.argument(p, tok)
        def conv(v, k, src):
            if ctx.symbolic:
                return isinstance(v, symx.Conv) and v.kind == k and (v.src is src or (v.src.src is src and v.src.op == ('replace', ',', '.')))
            return v == (int(src) if k == 'int' else float(src.replace(',', '.')))
        if kind == 'int':
            ctx.check('int token -> Arg.Int(int(token))', isinstance(a, wl.Arg.Int) and conv(a.value, 'int', tok))
        elif kind == 'fixed':
            ctx.check('fixed token -> Arg.Float(float(token with , -> .))', isinstance(a, wl.Arg.Float) and conv(a.value, 'float', tok))
        elif kind == 'str':
            ctx.check('string token -> Arg.String(payload), also for the empty payload', isinstance(a, wl.Arg.String) and (a.value is groups['str'] if ctx.symbolic else a.value == groups['str']))
        elif kind == 'nil':
            ctx.check('nil -> Arg.Null', isinstance(a, wl.Arg.Null) and a.type is None)
        elif kind == 'array':
            ctx.check('array -> Arg.Array', isinstance(a, wl.Arg.Array))
        elif kind == 'obj':
            ctx.check('type@id -> object reference', isinstance(a, wl.Arg.Object) and not a.is_new and conv(a.obj.id, 'int', groups['obj_id'])
                      and (a.obj.type is groups['obj_type'] if ctx.symbolic else a.obj.type == groups['obj_type']) and not a.obj.resolved())
        elif kind == 'new':
            ctx.check('new id type@id -> typed new id', isinstance(a, wl.Arg.Object) and a.is_new and conv(a.obj.id, 'int', groups['new_id'])
                      and (a.obj.type is groups['new_type'] if ctx.symbolic else a.obj.type == groups['new_type']))
        elif kind == 'newu':
            ctx.check('new id [unknown]@id -> untyped new id', isinstance(a, wl.Arg.Object) and a.is_new and conv(a.obj.id, 'int', groups['new_id']) and a.obj.type is None)
        elif kind == 'fd':
            ctx.check('fd N -> Arg.Fd(N)', isinstance(a, wl.Arg.Fd) and conv(a.value, 'int', groups['fd']))
    finally:
        for k, v in saved.items():
            if v is None:
                parse.__dict__.pop(k, None)
            else:
                parse.__dict__[k] = v


def message_assembly(ctx, case):
    """message() with both regexes replaced by fakes that behave as M1/M2 establish for a printer line:
    the regex of the line's direction matches from position 0 with the denoted fields, the other regex
    either does not match or matches at some LATER position s >= 1 (text inside a string argument) with
    unrelated captures.  Direction, connection tag, target, name and argument text must be the denoted ones
    for every s."""
    from backends.libwayland_debug_output import parse
    from core import wl
    sent, other = case
    saved_inst = parse.WlPatterns.instance
    saved_base = wl.Message.base_time
    saved_al = parse.argument_list
    wl.Message.base_time = 0.0
    try:
        has_conn = ctx.choose([True, False], 'conn_tag')
        right = {'timestamp': '12,345', 'conn': _text(ctx, 'conn', '7') if has_conn else None, 'type': _text(ctx, 'type', 'wl_a'),
                 'id': '42', 'message': _text(ctx, 'name', 'frob'), 'args': _text(ctx, 'args', '1, 2', minlen=0)}
        wrong = {'timestamp': '99.000', 'conn': 'WRONG', 'type': 'wrong_t', 'id': '666', 'message': 'wrong_m', 'args': 'wrong'}
        if other == 'later':
            s = ctx.fresh_int('s', 1, 10 ** 6)
        class FakeP:
            pass
        p = FakeP()
        r_right = FakeRe(lambda t: FakeMatch(right, 0))
        r_wrong = FakeRe((lambda t: None) if other == 'none' else (lambda t: FakeMatch(wrong, s)))
        p.out_msg_re, p.in_msg_re = (r_right, r_wrong) if sent else (r_wrong, r_right)
        p.arg_re = None
        seen = []
        parse.argument_list = lambda pp, text: (seen.append(text), ('ARGS',))[1]
        parse.WlPatterns.instance = p
        conn_id, msg = parse.message('<the line>')
        ctx.check('direction is the one of the regex that matches from the start of the line', msg.sent == sent)
        if has_conn:
            ctx.check('connection tag', conn_id is right['conn'] if ctx.symbolic else conn_id == right['conn'])
        else:
            ctx.check('no tag -> the default connection id', conn_id == 'PARSED')
        ctx.check('target interface', msg.obj.type is right['type'] if ctx.symbolic else msg.obj.type == right['type'])
        ctx.check('target id', msg.obj.id == 42)
        ctx.check('message name', msg.name is right['message'] if ctx.symbolic else msg.name == right['message'])
        ctx.check('argument text handed to the splitter', len(seen) == 1 and (seen[0] is right['args'] if ctx.symbolic else seen[0] == right['args']) and msg.args == ('ARGS',))
        ctx.check('time stamp text -> seconds', abs(msg.timestamp - 0.012345) < 1e-12)
    finally:
        parse.WlPatterns.instance = saved_inst
        wl.Message.base_time = saved_base
        parse.argument_list = saved_al


def splitter(ctx, case):
    """argument_list_strs on an argument text whose CHARACTERS are symbolic: tokens joined by ', ', each a quoted string with
    arbitrary payload (any printable character but " and backslash -- commas, brackets, parentheses, spaces included) or a bare
    token; the split must give back exactly the tokens"""
    from backends.libwayland_debug_output import parse
    z = symx.z3() if ctx.symbolic else None
    shape = case          # tuple of ('s', payload_len) / ('b', len)
    toks = []
    chars = []
    for ti, (kind, n) in enumerate(shape):
        if ti:
            chars += [ord(','), ord(' ')]
        start = len(chars)
        if kind == 's':
            chars.append(ord('"'))
            for k in range(n):
                c = ctx.fresh_int('t%d_c%d' % (ti, k), 32, 127)
                ctx.assume(c != ord('"'))
                ctx.assume(c != 92)
                chars.append(c)
            chars.append(ord('"'))
        else:
            prev = None
            for k in range(n):
                c = ctx.fresh_int('t%d_c%d' % (ti, k), 32, 127)
                ctx.assume(c != ord('"'))
                ctx.assume(c != 92)
                if prev is not None:
                    # a bare token never contains the separator
                    ctx.assume(~((prev == ord(',')) & (c == ord(' '))) if ctx.symbolic else not (prev == ord(',') and c == ord(' ')))
                prev = c
                chars.append(c)
        toks.append((start, len(chars)))
    if ctx.symbolic:
        text = symx.SWord([c if isinstance(c, symx.SInt) else c for c in chars], 'args')
        # SWord wants SInt or int code points
    else:
        text = ''.join(chr(c) for c in chars)
    got = parse.argument_list_strs(text)
    ctx.check('as many pieces as arguments (nothing split, nothing merged)', len(got) == len(toks))
    if len(got) == len(toks):
        for (a, b), g in zip(toks, got):
            if ctx.symbolic:
                ok = isinstance(g, symx.SWord) and len(g.chars) == b - a and all((x is y) or (isinstance(x, int) and x == y) for x, y in zip(g.chars, chars[a:b]))
            else:
                ok = g == text[a:b]
            ctx.check('each piece is exactly its argument', ok)


def _splitter_shapes(tier):
    import itertools
    maxp = 3 if tier == 'quick' else 4
    kinds = [('s', n) for n in range(0, maxp + 1)] + [('b', 1), ('b', 2)]
    shapes = [()]
    for k in (1, 2, 3):
        for sh in itertools.product(kinds, repeat=k):
            if sum(n for _, n in sh) > (5 if tier == 'quick' else 7):
                continue
            if k == 3 and tier == 'quick' and sum(1 for kk, _ in sh if kk == 's') > 2:
                continue
            shapes.append(tuple(sh))
    return shapes


# ---------------------------------------------------------------------------------------------------------------- line by line
# (kind, text, what it denotes: (connection tag, sent, interface, id, name, number of arguments) or None)
STREAM_LINES = [
    ('[1000.100]  -> wl_display@1.get_registry(new id wl_registry@2)', (None, True, 'wl_display', 1, 'get_registry', 1)),
    ('[1000.200] {Default Queue} wl_registry#2.global(1, "wl_compositor", 4)', (None, False, 'wl_registry', 2, 'global', 3)),
    ('[1000.300]  -> zz_iface@7.set_title("complete, with (brackets) and a , comma")', (None, True, 'zz_iface', 7, 'set_title', 1)),
    # a line cut off in the middle of a string argument (the writer was interrupted, a truncated capture): it is no message line
    ('[1000.400]  -> zz_iface@7.set_title("cut off in the midd', None),
    ('[1000.500] {Default Queue} zz_iface#7.describe(3, "cut off, after a comma', None),
    ('[1000.600] zz_iface@7.poke(', None),
    ('program chatter "with a quote', None),
    ('[1000.700] zz_iface@7.done(77)', (None, False, 'zz_iface', 7, 'done', 1)),
    # one argument more / a message the shipped description of a known interface does not have (a newer protocol revision)
    ('[1000.800] wl_display@1.error(wl_display@1, 2, "x", 4)', (None, False, 'wl_display', 1, 'error', 4)),
    ('[1000.900]  -> wl_display@1.sync2(7, nil)', (None, True, 'wl_display', 1, 'sync2', 2)),
    # string payloads outside ASCII (titles, app ids, clipboard text): the value is the text between the quotes, character for character
    ('[1001.000]  -> zz_iface@7.set_title("caf\u00e9 \u2014 \u20ac5, \u65e5\u672c\u8a9e \u0416 1,250 rgb(1,2,3)")', (None, True, 'zz_iface', 7, 'set_title', 1, ['caf\u00e9 \u2014 \u20ac5, \u65e5\u672c\u8a9e \u0416 1,250 rgb(1,2,3)'])),
    # a printed line is longer than the message on the wire (tags, names, quotes): no length a reader may assume bounds it
    ('[1001.100] {Default Queue} <conn7>  -> zz_iface#7.set_surrounding_text("' + 'lorem, ipsum (dolor) ' * 330 + '", 3, 4)', ('conn7', True, 'zz_iface', 7, 'set_surrounding_text', 3, ['lorem, ipsum (dolor) ' * 330])),
]


def stream_lines(ctx, case):
    """the decoder works line by line: whatever came before (a cut-off line, chatter with an open quote), every line that is a printer line is decoded
    into exactly the message it denotes, and a line that is none is not reported as one - through the real line loop (into_sink)"""
    import logging
    logging.disable(logging.CRITICAL)
    from backends.libwayland_debug_output import parse
    from core import wl
    from core.output import Output
    from lib.stubs import RecStream
    n = case
    from core.connection_manager import ConnectionManager
    from harness import c08
    c08._load_protocols()
    wl.Message.base_time = None
    idx = [ctx.choose(list(range(len(STREAM_LINES))), 'line%d' % k) for k in range(n)]
    if idx.count(0) > 1:
        ctx.assume(False)       # a second get_registry on id 2 is an ill-formed history (C02)
    got = []
    mgr = ConnectionManager()

    class Sink:
        # the real connection manager (messages are resolved against the shipped protocol descriptions), observed
        def open_connection(self, t, cid, role):
            return mgr.open_connection(t, cid, role)
        def close_connection(self, t, cid):
            return mgr.close_connection(t, cid)
        def message(self, cid, m):
            got.append((cid, m))
            return mgr.message(cid, m)

    class F:
        def __init__(self):
            self.i = 0
        def readline(self, size=-1):
            # io.TextIOBase.readline: at most `size` characters when a size is given; the rest of the line is what the next call returns
            if not getattr(self, 'rest', ''):
                self.i += 1
                self.rest = STREAM_LINES[idx[self.i - 1]][0] + chr(10) if self.i <= n else ''
            k = len(self.rest) if size is None or size < 0 else size
            piece, self.rest = self.rest[:k], self.rest[k:]
            return piece
    out, err = RecStream(), RecStream()
    parse.into_sink(F(), Output(False, True, out, err), Sink())
    want = [STREAM_LINES[i][1] for i in idx if STREAM_LINES[i][1] is not None]
    ctx.check('as many messages reported as there are message lines (none invented, none swallowed)', len(got) == len(want))
    for (cid, m), w in zip(got, want):
        ctx.check('each message line decodes to the message it denotes, whatever the line before it was',
                  (m.sent, m.obj.type, m.obj.id, m.name, len(m.args)) == w[1:6] and cid == (w[0] or 'PARSED'))
        if len(w) > 6:
            ctx.check('string arguments carry the text between the quotes, character for character (non-ASCII text, very long text)',
                      [a.value for a in m.args if isinstance(a, wl.Arg.String)] == w[6])
    ctx.check('every line that is no message is passed through, once', len([x for x in out.items if x.lstrip().startswith('|')]) == n - len(want))
    ctx.check('no error output', err.items == [])


def obligations(tier):
    from spec import printer_grammar as G
    obs = [
        Ob('translator-validation', 'smt', 'Python re vs z3 translation: membership and group spans on shipped logs and test inputs; reference grammar accepts the shipped message lines',
           FUNCS_RE, 'all lines of the shipped logs' if tier != 'quick' else 'every 7th line of the shipped logs', run_validate, cases=['all' if tier != 'quick' else 'sample'],
           replay=lambda c, x: (False, 'n/a')),
        Ob('argument-tokens', 'smt', 'D1 every printer token is accepted by arg_re; D2 with Python\'s ordered alternation made explicit, every way arg_re matches a printer token captures the denoted kind and payload groups',
           FUNCS_RE, 'tokens of any length; both dialects; 9 productions', run_args, cases=['old', 'new'], replay=replay_line,
           outside='Unicode digits/letters beyond one representative; new id ...#nil'),
        Ob('message-lines', 'smt', 'M1 acceptance, M2 direction at position 0, M3 line-like text inside string arguments, M4 field capture (marker query) for sent and received lines',
           FUNCS_RE, 'lines of any length, 0..unbounded arguments of all productions; variants: ' + ', '.join(v[0] for v in G.variants()), run_lines, cases=G.variants(), replay=replay_line,
           outside='queue names outside [A-Za-z0-9 _-]*, `discarded` lines'),
        Ob('non-messages', 'smt', 'whatever either regex finds with search() contains a bracketed time stamp and a iface@id.name(...) core up to the end of the line',
           FUNCS_RE, 'strings of any length', run_envelope, cases=[None], replay=replay_envelope),
        Ob('argument-dispatch', 'symx', 'argument(): class and payload for each production given captures as established by D2; payload texts opaque (any content), emptiness symbolic',
           FUNCS_GLUE[1:2], 'one token of each of the 9 productions, arbitrary payload', arg_dispatch, cases=['int', 'fixed', 'str', 'nil', 'obj', 'new', 'newu', 'array', 'fd'],
           stubs=['WlPatterns.arg_re replaced by a fake returning the captures established by obligation argument-tokens', 'int/float shadowed in parse.py to keep conversions symbolic']),
        Ob('message-assembly', 'symx', 'message(): direction and fields taken from the regex that matches from position 0, wherever else (position s >= 1, symbolic) the other regex may match',
           FUNCS_GLUE[0:1], 'other regex: no match / match at any position 1 <= s < 10^6; with and without connection tag; field texts opaque', message_assembly,
           cases=[(True, 'none'), (True, 'later'), (False, 'none'), (False, 'later')],
           stubs=['WlPatterns instance replaced by fakes behaving as M1/M2 establish', 'argument_list stubbed (its text argument is what is checked)']),
        Ob('argument-splitter', 'symx', 'argument_list_strs on argument texts with symbolic characters: quoted strings with arbitrary payload (commas, brackets, parentheses, spaces) and bare tokens come back unsplit and unmerged',
           FUNCS_GLUE[3:5], 'all token shapes of <= 3 arguments: strings with payload of 0..%d arbitrary characters, bare tokens of 1..2; every printable ASCII character except " and backslash' % (3 if tier == 'quick' else 4),
           splitter, cases=_splitter_shapes(tier), stubs=['the argument text is an SWord (list of symbolic code points)']),
        Ob('line-by-line', 'symx', 'streams through the real line loop: each printer line decodes to what it denotes whatever preceded it (cut-off lines, chatter with an open quote); non-messages are never reported as messages',
           FUNCS_GLUE[:1] + ['backends.libwayland_debug_output.parse:Parser.parse_all', 'backends.libwayland_debug_output.parse:Parser.handle_message'],
           'all streams of <= %d lines from a pool of %d (3 of them cut off inside a string / an argument list, one with non-ASCII text, one of 7 000 characters)' % (3 if tier == 'quick' else 4, len(STREAM_LINES)), stream_lines, cases=[1, 2, 3] if tier == 'quick' else [1, 2, 3, 4]),
        Ob('generated-lines', 'smt', 'solver-generated printer lines (every ordered pair of argument productions, tricky string payloads) decoded end to end by the real parse.message vs the reference decoder',
           FUNCS_GLUE, 'one or two arguments per line; all productions; 5 variants x 2 directions', run_generated, cases=G.variants() if tier != 'quick' else G.variants()[:1] + G.variants()[4:],
           replay=replay_line),
    ]
    return obs
