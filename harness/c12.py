"""C12 -- filter/breakpoint commands accumulate alternatives and exclusions"""
from lib.runner import Ob
from lib import symx
from harness import ctl

LEVEL = 'model_checking'
MANIFEST = {'category': 'model_checking', 'engine': 'symx+z3',
 'technique': 'symbolic execution of the real filter/breakpoint command path (parse_and_join -> matcher.join -> simplify) on sequences of command shapes over abstract leaves with solver-chosen verdicts, compared with the accumulation rule of the statement',
 'text': 'For every sequence of <= 3 filter (or breakpoint) commands drawn from 9 shapes (single alternative, several alternatives, alternatives with exclusions, exclusions only, `*`, `* ! x`, `a, *`, `!`, malformed text), after EVERY step the stored matcher is evaluated on an abstract message whose leaf verdicts are symbolic booleans; z3 proves the verdict equals the accumulation rule (some accumulated alternative and no accumulated exclusion; `*` = no restriction until the next specific alternative; constants are replaced; `!` resets; malformed text leaves the identical matcher object and prints an error).',
 'note': 'Trusted: z3, lib/symx.py. Leaves are abstract (C05 covers what real leaves select); the parser is replaced by a function returning trees of the shape the real parser builds (`*` and `!` come from the real parser). Don\'t-care: whether an alternative given BEFORE an explicit `*` still counts after a later specific alternative (the statement does not say).'}
EXPLANATION = MANIFEST['text']
ASSUMPTIONS = ['abstract leaves with always() = None', 'fake parser returns trees shaped like the real parser\'s (MatcherList(pos, neg) / single pattern / real parse("*") / real parse("!"))']
FUNCS = ['core.matcher:join', 'core.matcher:_as_list', 'core.matcher:MatcherList.simplify', 'core.matcher:MatcherList.matches', 'frontends.tui.controller:Controller.parse_and_join',
         'frontends.tui.controller:Controller.filter_command', 'frontends.tui.controller:Controller.break_point_command', 'frontends.tui.controller:Controller.process_command']

SHAPES = ['a', 'a,b', 'a!x', 'a,b!x,y', '!x', '*', '*!x', 'a,*', '!', 'bad']


def accumulate(ctx, case):
    which, seq = case
    from core import matcher
    w = ctl.make_world(ctx, 1)
    try:
        msg = ctl.add_message(w, 0)
        counter = [0]

        def leaf(prefix):
            counter[0] += 1
            # distinct matchers can print the same (`(="wl_seat")` and `(=wl_seat)` do): printing must not be used to identify them
            return ctl.SymLeaf(ctx, '%s%d' % (prefix, counter[0]), label='leaf' if case[0] == 'filter' else None)
        # reference state
        state = ('const', True) if which == 'filter' else ('const', False)
        saved = matcher.parse
        try:
            for step_i, shape in enumerate(seq):
                A, X, star = [], [], None
                never = malformed = False
                if shape == 'bad':
                    malformed = True
                    def fake(text):
                        raise RuntimeError('not a matcher')
                elif shape == '!':
                    never = True
                    fake = lambda text: saved('!')
                elif shape == '*':
                    star = 'explicit'
                    fake = lambda text: saved('*')
                else:
                    pos_t, _, neg_t = shape.partition('!')
                    pos, neg = [], []
                    for t in [t for t in pos_t.split(',') if t]:
                        if t == '*':
                            star = 'explicit'
                            pos.append(matcher._parse_message_pattern('*'))
                        else:
                            l = leaf('alt')
                            A.append(l)
                            pos.append(l)
                    for t in [t for t in neg_t.split(',') if t]:
                        l = leaf('excl')
                        X.append(l)
                        neg.append(l)
                    if '!' in shape:
                        if not pos:
                            star = 'implicit'
                            pos = [matcher._parse_message_pattern('')]
                        tree = matcher.MatcherList(pos, neg)
                    elif len(pos) > 1:
                        tree = matcher.MatcherList(pos, [])
                    else:
                        tree = pos[0]
                    fake = (lambda tr: (lambda text: tr))(tree)
                matcher.parse = fake
                old_obj = w.ctl.display_matcher if which == 'filter' else w.ctl.stop_matcher
                nerr = len(w.err.items)
                nout = len(w.out.items)
                w.ctl.process_command(('filter ' if which == 'filter' else 'breakpoint ') + 'TEXT%d' % step_i)
                cur = w.ctl.display_matcher if which == 'filter' else w.ctl.stop_matcher
                # ---- reference rule
                if malformed:
                    ctx.check('malformed text: an Error: line is written', len(w.err.items) == nerr + 1 and 'Failed to parse' in w.err.items[-1])
                    ctx.check('malformed text: the current matcher is exactly the object it was', cur is old_obj)
                else:
                    ctx.check('accepted text: no error line', len(w.err.items) == nerr)
                    if never:
                        state = ('const', False)
                    elif state[0] == 'const':
                        if star is not None:
                            state = ('acc', [], list(A), list(X), True)
                        else:
                            state = ('acc', list(A), [], list(X), False)
                    else:
                        _, sure, maybe, XX, st = state
                        XX = X + XX
                        if star == 'explicit':
                            state = ('acc', [], maybe + sure + A, XX, True)
                        elif A:
                            state = ('acc', A + sure, maybe, XX, False)
                        else:
                            state = ('acc', sure, maybe, XX, st)
                ctx.check('the command reports the matcher now in force', len(w.out.items) == nout + 1)
                # ---- evaluate the stored matcher on an abstract message
                real = cur.matches(msg)
                if not isinstance(real, bool):
                    real = bool(real)
                if state[0] == 'const':
                    ctx.check('step %d (%s): constant matcher selects %s' % (step_i, shape, 'everything' if state[1] else 'nothing'), real == state[1])
                else:
                    _, sure, maybe, XX, st = state
                    vs = lambda ls: [l.verdict(msg) for l in ls]
                    if ctx.symbolic:
                        z = symx.z3()
                        o = lambda ls: z.Or(*[symx._b(v) for v in vs(ls)]) if ls else z.BoolVal(False)
                        any_x, any_sure, any_maybe = o(XX), o(sure), o(maybe)
                        must_select = z.And(z.Or(z.BoolVal(st), any_sure), z.Not(any_x))
                        must_reject = z.Or(any_x, z.And(z.BoolVal(not st), z.Not(any_sure), z.Not(any_maybe)))
                        ctx.check('step %d (%s): selected => some accumulated alternative and no accumulated exclusion matches' % (step_i, shape),
                                  z.Not(must_reject) if real else z.Not(must_select))
                    else:
                        any_x, any_sure, any_maybe = any(vs(XX)), any(vs(sure)), any(vs(maybe))
                        must_select = (st or any_sure) and not any_x
                        must_reject = any_x or (not st and not any_sure and not any_maybe)
                        ctx.check('step %d (%s): selected => some accumulated alternative and no accumulated exclusion matches' % (step_i, shape),
                                  (not must_reject) if real else (not must_select))
        finally:
            matcher.parse = saved
    finally:
        ctl.restore_show()


REAL_TEXTS = [('.m1', ['m1'], [], None), ('.m1, .m2', ['m1', 'm2'], [], None), ('.m2 ! .m3', ['m2'], ['m3'], None), ('! .m3', [], ['m3'], 'implicit'),
              ('.m3, .m4', ['m3', 'm4'], [], None), ('*', [], [], 'explicit'), ('!', None, None, None), ('.m1(', 'bad', None, None), ('! .m4', [], ['m4'], 'implicit'),
              ('"', 'bad', None, None), ('.m1(="abc)', 'bad', None, None), ('[.m1', 'bad', None, None), ('a.b.c', 'bad', None, None), ('x@y@z', 'bad', None, None), ('.m1(x=y=z)', 'bad', None, None),
              # connection-qualified alternatives / exclusions (the connection is named A)
              ('A: .m5', ['m5'], [], None), ('! A:.m4', [], ['m4'], 'implicit'),
              # alternatives that are DISPLAYED alike and mean different things: the number 7 / the text "7" as argument of .m6
              ('.m6(7)', ['m6i'], [], None), ('.m6("7")', ['m6s'], [], None),
              # other spellings of "everything": each is an explicit star
              ('*.*', [], [], 'explicit'), ('.', [], [], 'explicit')]


def fold(st, entry):
    """the documented accumulation rule on a reference state: ('const', bool) | ('acc', sure, maybe, excluded, star)"""
    text, A, X, star = entry
    if A == 'bad':
        return st
    if A is None:
        return ('const', False)
    if st[0] == 'const':
        return ('acc', [], list(A), list(X), True) if star is not None else ('acc', list(A), [], list(X), False)
    _, sure, maybe, XX, sflag = st
    XX = X + XX
    if star == 'explicit':
        return ('acc', [], maybe + sure + A, XX, True)
    if A:
        return ('acc', A + sure, maybe, XX, False)
    return ('acc', sure, maybe, XX, sflag)


def verdict(st, nm):
    """(must_select, must_reject) for a message named nm"""
    if st[0] == 'const':
        return st[1], not st[1]
    _, sure, maybe, XX, sflag = st
    return ((sflag or nm in sure) and nm not in XX), (nm in XX or (not sflag and nm not in sure and nm not in maybe))


def real_sequences(ctx, case):
    """the same rule through the REAL parser: interleaved filter / breakpoint commands with real texts, evaluated on real messages"""
    from core import wl, matcher
    # case: n | (n, index of the -f text or None, index of the -b text or None): matchers given at start-up (`-f` / `-b`, built the way
    # frontends.tui.arguments.parse_args builds them) are the first alternatives of the accumulation
    n, f0, b0 = case[:3] if isinstance(case, tuple) else (case, None, None)
    forced = case[3:5] if isinstance(case, tuple) and len(case) > 3 else None       # first command fixed by the case (splits the exploration for parallelism)
    import logging
    logging.disable(logging.CRITICAL)
    state = {'filter': ('const', True), 'breakpoint': ('const', False)}
    init = {}
    for which, k in (('filter', f0), ('breakpoint', b0)):
        if k is not None:
            # through the real option parser (what main.py hands to the Controller)
            from frontends.tui import arguments
            parsed_args = arguments.parse_args(['main.py', '-l', 'some.log', '-f' if which == 'filter' else '-b', REAL_TEXTS[k][0]])
            init[which] = parsed_args.filter_matcher if which == 'filter' else parsed_args.stop_matcher
            state[which] = fold(('const', None), REAL_TEXTS[k])
    w = ctl.make_world(ctx, 1, display=init.get('filter'), stop=init.get('breakpoint'), show_stub=True)
    try:
        shapes = {'m1': ('m1', ()), 'm2': ('m2', ()), 'm3': ('m3', ()), 'm4': ('m4', ()), 'm5': ('m5', ()),
                  'm6i': ('m6', (wl.Arg.Int(7),)), 'm6s': ('m6', (wl.Arg.String('7'),))}
        msgs = {nm: wl.message.MockMessage(0.0, wl.object.MockObject(w.conns[0], 0.0, 5, 0, 'wl_x'), True, sh[0], sh[1]) for nm, sh in shapes.items()}
        for step_i in range(n):
            if step_i == 0 and forced:
                which, (text, A, X, star) = forced[0], REAL_TEXTS[forced[1]]
            else:
                which = ctx.choose(['filter', 'breakpoint'], 'which%d' % step_i)
                text, A, X, star = ctx.choose(REAL_TEXTS, 'text%d' % step_i)
            old_obj = w.ctl.display_matcher if which == 'filter' else w.ctl.stop_matcher
            nerr = len(w.err.items)
            w.ctl.process_command(which + ' ' + text)
            cur = w.ctl.display_matcher if which == 'filter' else w.ctl.stop_matcher
            st = state[which]
            if A == 'bad':
                ctx.check('malformed text `%s`: error line, identical matcher object' % text, len(w.err.items) == nerr + 1 and cur is old_obj)
            elif A is None:
                st = ('const', False)
            elif st[0] == 'const':
                st = ('acc', [], list(A), list(X), True) if star is not None else ('acc', list(A), [], list(X), False)
            else:
                _, sure, maybe, XX, sflag = st
                XX = X + XX
                if star == 'explicit':
                    st = ('acc', [], maybe + sure + A, XX, True)
                elif A:
                    st = ('acc', A + sure, maybe, XX, False)
                else:
                    st = ('acc', sure, maybe, XX, sflag)
            state[which] = st
            # both stored matchers are evaluated after every step (a command must not disturb the other one)
            for wh in ('filter', 'breakpoint'):
                mm = w.ctl.display_matcher if wh == 'filter' else w.ctl.stop_matcher
                s2 = state[wh]
                for nm, m in msgs.items():
                    real = mm.matches(m)
                    if s2[0] == 'const':
                        ctx.check('step %d: %s matcher is the constant %s' % (step_i, wh, s2[1]), real == s2[1])
                    else:
                        _, sure, maybe, XX, sflag = s2
                        must_select = (sflag or nm in sure) and nm not in XX
                        must_reject = nm in XX or (not sflag and nm not in sure and nm not in maybe)
                        ctx.check('step %d (%s %s): %s matcher on .%s follows the accumulation rule' % (step_i, which, text, wh, nm), (not must_reject) if real else (not must_select))
            # what the user sees: a later message is shown iff the accumulated filter selects it, and stops iff the accumulated breakpoint does
            # (independently of each other)
            for nm in ('m1', 'm3', 'm5', 'm6i', 'm6s'):
                k0 = len(w.out.items)
                live = ctl.add_message(w, 0, name=shapes[nm][0], args=tuple(type(a)(a.value) for a in shapes[nm][1]))
                shown = bool(ctl.msg_lines(w.out.items[k0:]))
                stopped = any('Stopped at' in x for x in w.out.items[k0:])
                for wh, real in (('filter', shown), ('breakpoint', stopped)):
                    s2 = state[wh]
                    if s2[0] == 'const':
                        ctx.check('step %d: a later .%s message %s' % (step_i, nm, 'is shown' if wh == 'filter' else 'stops'), real == s2[1])
                    else:
                        _, sure, maybe, XX, sflag = s2
                        must_select = (sflag or nm in sure) and nm not in XX
                        must_reject = nm in XX or (not sflag and nm not in sure and nm not in maybe)
                        ctx.check('step %d: whether a later .%s message %s follows the accumulated %s alone' % (step_i, nm, 'is shown' if wh == 'filter' else 'stops', wh),
                                  (not must_reject) if real else (not must_select))
    finally:
        ctl.restore_show()


def seq_cases(tier):
    top = 3 if tier == 'quick' else 4
    return [1, 2] + ([3] if top == 4 else []) + [(top, None, None, w, k) for w in ('filter', 'breakpoint') for k in range(len(REAL_TEXTS))] + startup_cases(tier)


def startup_cases(tier):
    """sequences that begin with matchers given on the command line (-f / -b)"""
    good = [k for k, e in enumerate(REAL_TEXTS) if e[1] != 'bad']          # `!`, `*`, `*.*` and `.` included: constants given at start-up
    withneg = [k for k in good if REAL_TEXTS[k][2]]
    bang = [k for k in good if REAL_TEXTS[k][1] is None]
    return [(2 if tier == 'quick' else 3, f, b) for f in [None] + good for b in [None] + withneg[:1] + bang if (f, b) != (None, None) and (b not in bang or f in (None, good[0]))]


def twin(ctx, case):
    accumulate(ctx, case)
    ctx.check('reachability twin (must be violated)', False)


def obligations(tier):
    import itertools
    cases = []
    depth = 3
    for which in ('filter', 'breakpoint'):
        for k in range(1, depth + 1):
            for seq in itertools.product(SHAPES, repeat=k):
                if tier == 'quick' and k == 3 and which == 'breakpoint':
                    continue
                if k == 3 and seq.count('a,b!x,y') > 1:
                    continue
                cases.append((which, seq))
    bounds = 'sequences of <= %d commands from the shapes %s; one abstract message after every step, leaf verdicts symbolic' % (depth, ' | '.join(SHAPES))
    return [Ob('accumulate', 'symx', 'filter/breakpoint accumulation rule after every step of every command sequence', FUNCS, bounds, accumulate, cases=cases,
               stubs=['matcher.parse replaced (trees shaped like the real parser\'s; `*`, `!` from the real parser)', 'abstract leaves'],
               outside='longer sequences (the rule is a fold, so length 3 exercises const->acc, acc->acc, acc->const, const->acc transitions); leaves with constant always()'),
            Ob('real-parser-sequences', 'symx', 'interleaved filter/breakpoint commands with real matcher texts through the real parser, both stored matchers evaluated on real messages after every step', FUNCS + ['core.matcher:parse'],
               'all sequences of <= %d commands from 2 commands x %d texts, also after -f / -b matchers given at start-up; 5 message names' % (3 if tier == 'quick' else 4, len(REAL_TEXTS)), real_sequences, cases=seq_cases(tier)),
            Ob('accumulate-reachable', 'symx', 'reachability twin', FUNCS, bounds, twin, cases=[('filter', ('a!x', 'a,b'))], expect_cex=True)]
