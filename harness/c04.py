"""C04 -- messages are attributed to the right connection; connections are isolated"""
import re
from lib.runner import Ob
from lib import symx
from lib.stubs import AssocDict, RecStream

LEVEL = 'model_checking'
MANIFEST = {'category': 'model_checking', 'engine': 'symx+z3',
 'technique': 'symbolic execution of the real ConnectionManager/ConnectionImpl/Parser: frame lemma with symbolic object ids (differential against a single-connection twin), lifecycle step from arbitrary manager states, all interleavings of two tagged log streams',
 'text': 'Frame: with two open connections holding arbitrary tables (symbolic ids that may coincide across connections), one arbitrary message routed to X leaves every field of Y untouched and changes X exactly as it changes a twin of X that is alone - so per-connection results are independent of what other connections do and of interleaving, for histories of any length. Lifecycle: from every manager state with <= 3 connections (open/closed, ids from a pool) one open/close/message keeps names A, B, C.. in creation order, the list append-only, id -> newest open connection, re-open = close once + fresh table, double close = no-op. Log backend: for every interleaving of two tagged streams (colliding object ids) each connection\'s rendered lines equal the lines of its stream decoded alone; New before first line, one Closed after the last. A stream whose id 2 is freed and handed out again as a registry stays one connection.',
 'note': 'Trusted: z3, lib/symx.py, association-list table. Bounds as stated in the evidence.'}
EXPLANATION = MANIFEST['text']
ASSUMPTIONS = ['association-list mapping behaves like dict', 'well-formed per-connection histories']
FUNCS = ['core.connection_manager:ConnectionManager.open_connection', 'core.connection_manager:ConnectionManager.close_connection', 'core.connection_manager:ConnectionManager.message',
         'core.connection_impl:ConnectionImpl.__init__', 'core.connection_impl:ConnectionImpl.message', 'core.connection_impl:ConnectionImpl.close',
         'backends.libwayland_debug_output.parse:Parser.handle_message', 'backends.libwayland_debug_output.parse:Parser.cleanup', 'backends.libwayland_debug_output.parse:message',
         'frontends.tui.controller:Controller.connection_opened', 'frontends.tui.controller:Controller.connection_closed', 'core.letter_id_generator:LetterIdGenerator.next']

T, U = 'wl_t', 'wl_u'


def _quiet():
    import logging
    logging.disable(logging.CRITICAL)
    from core.wl import protocol
    from core import wl
    protocol.interfaces.clear()
    wl.Message.base_time = 0
    return wl


def _snapshot(conn):
    snap = []
    for k, lst in conn.db.items():
        snap.append((k, [(o, o.type, o.generation, o.alive, o.create_time, o.destroy_time, o.id, o.connection) for o in lst]))
    return (snap, list(conn.message_list), conn.open, conn.name(), conn.is_server(), conn.title, conn.app_id())


def _same_snapshot(ctx, a, b, label):
    ctx.check(label + ': message list, open flag, name, role, title, app id', a[1:] == b[1:] and all(x is y for x, y in zip(a[1], b[1])))
    ctx.check(label + ': set of ids in the table', len(a[0]) == len(b[0]))
    for (k1, l1), (k2, l2) in zip(a[0], b[0]):
        ctx.check(label + ': id key', k1 == k2)
        ctx.check(label + ': incarnations of an id', len(l1) == len(l2))
        for x, y in zip(l1, l2):
            ctx.check(label + ': object identity and fields', x[0] is y[0] and x[1] == y[1] and x[2] == y[2] and x[3] == y[3] and x[7] is y[7])
            ctx.check(label + ': object times/id', ctx.conj([x[4] == y[4], (x[5] == y[5]) if (x[5] is not None and y[5] is not None) else (x[5] is y[5]), x[6] == y[6]]))


def frame(ctx, case):
    kinds, name = case
    wl = _quiet()
    from core.connection_manager import ConnectionManager

    def world(with_y):
        mgr = ConnectionManager()
        x = mgr.open_connection(0, 'idX', None)
        x.db = AssocDict(x.db)
        y = None
        if with_y:
            y = mgr.open_connection(0, 'idY', False)
            y.db = AssocDict(y.db)
        return mgr, x, y
    # the same symbolic ids are used in X and in Y (identical ids in use on several connections at once)
    a = ctx.fresh_int('id_a', 2, 2 ** 32)
    b = ctx.fresh_int('id_b', 2, 2 ** 32)
    ctx.assume(a != b)
    xa_alive = ctx.choose([True, False], 'x_a_alive')
    y_state = ctx.choose(['a_alive', 'a_dead_b_alive', 'empty'], 'y_state')
    worlds = []
    for with_y in (True, False):
        mgr, x, y = world(with_y)
        oa = x.create_object(1, x.display, a, T)
        if not xa_alive:
            oa.destroy(2)
        if with_y:
            if y_state != 'empty':
                ya = y.create_object(1, y.display, a, U)
                if y_state == 'a_dead_b_alive':
                    ya.destroy(2)
                    y.create_object(2, y.display, b, T)
            m0 = wl.Message(1, wl.UnresolvedObject(1, None), True, 'sync', ())
            mgr.message('idY', m0)
        worlds.append((mgr, x, y))
    tgt = ctx.fresh_int('tgt', 1, 2 ** 32)
    vals = [ctx.fresh_int('arg%d' % i, 1 if k == 'obj' else 2, 2 ** 32) for i, k in enumerate(kinds)]
    now = ctx.fresh_int('now', 2, None)
    results = []
    y_before = _snapshot(worlds[0][2])
    for (mgr, x, y) in worlds:
        def mk(k, v):
            if k == 'int': return wl.Arg.Int(v)
            if k == 'obj': return wl.Arg.Object(wl.UnresolvedObject(v, None), False)
            if k == 'new': return wl.Arg.Object(wl.UnresolvedObject(v, U), True)
        args = tuple(mk(k, v) for k, v in zip(kinds, vals))
        msg = wl.Message(now, wl.UnresolvedObject(tgt, None), False, name, args)
        err = None
        try:
            mgr.message('idX', msg)
        except RuntimeError as e:
            err = 'RuntimeError'      # ill-formed step (e.g. delete_id of an unknown id): must be the same in both worlds
        results.append((msg, args, err, x))
    y_after = _snapshot(worlds[0][2])
    _same_snapshot(ctx, y_before, y_after, 'a step on X leaves Y untouched')
    (m1, a1, e1, x1), (m2, a2, e2, x2) = results
    ctx.check('X behaves as if it were alone: same outcome', e1 == e2)
    def desc(o):
        return (o.resolved(), o.type, o.generation if o.resolved() else None, o.alive)
    ctx.check('X behaves as if it were alone: target attribution', desc(m1.obj) == desc(m2.obj))
    ctx.check('the target belongs to X', (not m1.obj.resolved()) or m1.obj.connection is x1)
    for p, q in zip(a1, a2):
        if isinstance(p, wl.Arg.Object):
            ctx.check('X behaves as if it were alone: argument attribution', desc(p.obj) == desc(q.obj))
            ctx.check('an argument object belongs to X', (not p.obj.resolved()) or p.obj.connection is x1)
    ctx.check('X behaves as if it were alone: destroyed object', (m1.destroyed_obj is None) == (m2.destroyed_obj is None) and
              (m1.destroyed_obj is None or desc(m1.destroyed_obj) == desc(m2.destroyed_obj)))
    s1, s2 = _snapshot(x1), _snapshot(x2)
    ctx.check('X behaves as if it were alone: table shape', len(s1[0]) == len(s2[0]))
    for (k1, l1), (k2, l2) in zip(s1[0], s2[0]):
        ctx.check('X alone: same ids', k1 == k2)
        ctx.check('X alone: same incarnations', [(t[1], t[2], t[3]) for t in l1] == [(t[1], t[2], t[3]) for t in l2])
    ctx.check('X records the message, Y does not', x1.message_list[-1] is m1 and all(m is not m1 for m in worlds[0][2].message_list))


def lifecycle(ctx, case):
    nops = case
    wl = _quiet()
    from core.connection_manager import ConnectionManager
    from core.letter_id_generator import number_to_letter_id
    from interfaces import ConnectionList, Connection
    mgr = ConnectionManager()
    events = []

    class L(ConnectionList.Listener):
        def connection_opened(self, cl, conn):
            events.append(('opened', conn))

    class CL(Connection.Listener):
        def connection_closed(self, conn):
            events.append(('closed', conn))

        def connection_got_new_message(self, conn, msg):
            events.append(('msg', conn, msg))

        def connection_str_changed(self, conn): pass
        def connection_app_id_set(self, conn, app_id): pass
    mgr.add_connection_list_listener(L(), False)
    cl = CL()
    pool = ['PARSED', '7', 'gdb_conn:0x55'] if nops <= 3 else ['PARSED', '7']
    # reference: list of [id, open?], in creation order
    ref = []
    for step in range(nops):
        op = ctx.choose(['open', 'close', 'message'], 'op%d' % step)
        cid = ctx.choose(pool, 'id%d' % step)
        role = (ctx.choose([None, True, False], 'role%d' % step) if nops <= 3 else [None, True, False][step % 3]) if op == 'open' else None
        before_list = list(mgr.connection_list)
        before_tables = [(c, [list(v) for v in c.db.values()], len(c.message_list), c.open) for c in before_list]
        nev = len(events)
        newest_open = [i for i, (r, o) in enumerate(ref) if r == cid and o]
        if op == 'open':
            c = mgr.open_connection(float(step), cid, role)
            c.add_connection_listener(cl)
            for i in newest_open:
                ref[i][1] = False
            ref.append([cid, True])
            ctx.check('a new connection is appended and returned', mgr.connection_list == before_list + [c])
            ctx.check('named by creation order: A, B, C ...', c.name() == number_to_letter_id(len(ref) - 1, True))
            ctx.check('role as announced', c.is_server() is role)
            ctx.check('fresh object table: only the display', list(c.db.keys()) == [1] and len(c.db[1]) == 1 and c.db[1][0] is c.wl_display() and c.messages() == ())
            closed_ev = [e for e in events[nev:] if e[0] == 'closed']
            ctx.check('re-opening an id closes its previous connection exactly once', len(closed_ev) == len(newest_open) and all(e[1] is before_list[i] for e, i in zip(closed_ev, newest_open)))
            ctx.check('listeners told about the new connection once', [e for e in events[nev:] if e[0] == 'opened'] == [('opened', c)])
        elif op == 'close':
            mgr.close_connection(float(step), cid)
            for i in newest_open:
                ref[i][1] = False
            ctx.check('closing never removes a connection from the list', mgr.connection_list == before_list)
            closed_ev = [e for e in events[nev:] if e[0] == 'closed']
            ctx.check('close notifies exactly the open connection of that id (a second close is a no-op)', len(closed_ev) == len(newest_open) and all(e[1] is before_list[i] for e, i in zip(closed_ev, newest_open)))
        else:
            if not newest_open:
                ctx.assume(False)      # a message for an id that is not open is a caller error (asserted), outside the property
            m = wl.Message(float(step), wl.UnresolvedObject(1, None), True, 'sync', ())
            mgr.message(cid, m)
            tgt = before_list[newest_open[-1]]
            ctx.check('routed to the newest open connection of that id', bool(tgt.message_list) and tgt.message_list[-1] is m and events[nev:] == [('msg', tgt, m)])
            ctx.check('no other connection records it', all(m not in c.message_list for c in before_list if c is not tgt))
        # global invariants
        ctx.check('open flags as per the reference history', [c.is_open() for c in mgr.connection_list] == [o for _, o in ref])
        ctx.check('names never change and never repeat', [c.name() for c in mgr.connection_list] == [number_to_letter_id(i, True) for i in range(len(ref))])
        for cid2 in pool:
            opens = [i for i, (r, o) in enumerate(ref) if r == cid2 and o]
            ctx.check('at most one open connection per id', len(opens) <= 1)
            got = mgr.open_connections.get(cid2)
            ctx.check('id maps to its newest open connection', (got is None and not opens) or (opens and got is mgr.connection_list[opens[-1]]))
        for (c, tables, nmsg, was_open) in before_tables:
            if op != 'message' or c is not before_list[newest_open[-1]]:
                ctx.check('connections not addressed by the operation keep their table and messages', [list(v) for v in c.db.values()] == tables and len(c.message_list) == nmsg)
        ctx.check('connections() is the list', mgr.connections() == tuple(mgr.connection_list))


STREAM_A = ['[1000.100] <1>  -> wl_display#1.get_registry(new id wl_registry#2)',
            '[1000.300] <1>  -> wl_display#1.sync(new id wl_callback#3)',
            '[1000.500] <1> wl_display#1.delete_id(3)',
            '[1000.700] <1>  -> wl_display#1.sync(new id wl_callback#3)']
STREAM_B = ['[1000.200] <2> wl_display#1.get_registry(new id wl_registry#2)',
            '[1000.400] <2> wl_registry#2.bind(1, "wl_t", 1, new id [unknown]#3)',
            '[1000.600] <2> wl_t#3.poke(wl_registry#2)',
            '[1000.800] <2>  -> wl_display#1.delete_id(3)']


# a connection that frees its registry and asks for a new one: id 2 is legitimately handed out again
STREAM_R = ['[1000.100] <1>  -> wl_display#1.get_registry(new id wl_registry#2)',
            '[1000.300] <1> wl_display#1.delete_id(2)',
            '[1000.500] <1>  -> wl_display#1.get_registry(new id wl_registry#2)',
            '[1000.700] <1>  -> wl_registry#2.bind(1, "wl_t", 1, new id [unknown]#3)']


# a connection that binds the same id as the other one to ANOTHER interface, whose messages happen to be called like the ones the
# connection-naming code looks at (with other signatures)
STREAM_S = ['[1000.100] <1>  -> wl_display#1.get_registry(new id wl_registry#2)',
            '[1000.300] <1>  -> wl_registry#2.bind(1, "wl_s", 1, new id [unknown]#3)',
            '[1000.500] <1>  -> wl_s#3.set_title()',
            '[1000.700] <1> wl_s#3.get_layer_surface(7)']


def _render(lines):
    from core import wl, matcher, util
    from core.connection_manager import ConnectionManager
    from core.output import Output
    from frontends.tui.controller import Controller
    from backends.libwayland_debug_output import parse

    class F:
        def __init__(self, ls): self.ls = [l + '\n' for l in ls]; self.i = 0
        def readline(self):
            self.i += 1
            return self.ls[self.i - 1] if self.i <= len(self.ls) else ''
    util.color_output = False
    wl.Message.base_time = None
    out, err = RecStream(), RecStream()
    output = Output(False, True, out, err)
    mgr = ConnectionManager()
    Controller(output, mgr, matcher.always, matcher.never)
    parse.into_sink(F(lines), output, mgr)
    return out.items, err.items, mgr


_norm = re.compile(r'^\s*-?\d+\.\d{4} (\w+): ')


def interleave(ctx, case):
    na, nb = case[:2]
    sa, sb = (case[2], case[3]) if len(case) > 2 else (0, 0)
    _quiet()
    # a stream may start after its get_registry (the log began later): then the role is unknown
    if sa in ('R', 'S'):
        A, B = (STREAM_R if sa == 'R' else STREAM_S)[:na], STREAM_B[sb:sb + nb]
        sa = 0
    else:
        A, B = STREAM_A[sa:sa + na], STREAM_B[sb:sb + nb]
    if sa == 9:
        # the tag's first line names an object the tool never saw created (the log began mid-way): reported, but the tag is known from then on
        A = ['[999.900] <1> wl_display#1.delete_id(77)'] + STREAM_A[1:1 + na]
    # choose an interleaving preserving each stream's order
    order = []
    ia = ib = 0
    while ia < na or ib < nb:
        if ia < na and ib < nb:
            pick = ctx.choose(['a', 'b'], 'pick%d' % len(order))
        else:
            pick = 'a' if ia < na else 'b'
        if pick == 'a':
            order.append(('a', A[ia])); ia += 1
        else:
            order.append(('b', B[ib])); ib += 1
    items, errs, mgr = _render([l for _, l in order])
    first = order[0][0] if order else None
    name_of = {'a': 'A' if first == 'a' else 'B', 'b': 'A' if first == 'b' else 'B'}
    alone = {}
    for k, S in (('a', A), ('b', B)):
        it, er, _ = _render(S)
        alone[k] = [_norm.sub('', s) for s in it if _norm.match(s)]
    ctx.check('no error output', errs == [])
    if sa == 0 and sb == 0:
        per = {'A': [], 'B': []}
        for s in items:
            m = _norm.match(s)
            if m:
                per.setdefault(m.group(1), []).append(_norm.sub('', s))
        for k in ('a', 'b'):
            if (na if k == 'a' else nb) == 0:
                continue
            ctx.check('connections are named in order of first appearance', name_of[k] in per)
            ctx.check('what is shown for a connection (objects, incarnation letters, destroyed annotations) does not depend on the interleaving',
                      per.get(name_of[k]) == alone[k])
        # notices
        for k in ('a', 'b'):
            n = name_of[k]
            if (na if k == 'a' else nb) == 0:
                continue
            news = [i for i, s in enumerate(items) if s.startswith('New ') and s.endswith(' connection ' + n)]
            closed = [i for i, s in enumerate(items) if s.startswith('Closed ') and s.endswith(' connection ' + n)]
            lines_n = [i for i, s in enumerate(items) if _norm.match(s) and _norm.match(s).group(1) == n]
            ctx.check('announced once before its first message', len(news) == 1 and news[0] < lines_n[0])
            ctx.check('reported closed once after the last line', len(closed) == 1 and closed[0] > max(i for i, s in enumerate(items) if _norm.match(s)))
    else:
        # streams that begin after their get_registry mention objects that were never created (shown as unresolved, without
        # a connection prefix): only the connection-level facts are checked for them
        nconn = (1 if (na or sa == 9) else 0) + (1 if nb else 0)
        ctx.check('each connection announced and closed once', len([s for s in items if s.startswith('New ')]) == nconn and len([s for s in items if s.startswith('Closed ')]) == nconn)
    roles = {c.name(): c.is_server() for c in mgr.connections()}
    ctx.check('every tag that carried a line became a connection', (not na or name_of['a'] in roles) and (not nb or name_of['b'] in roles))
    if (na and name_of['a'] not in roles) or (nb and name_of['b'] not in roles):
        return
    if na:
        ctx.check('role of the first connection: from the direction of ITS OWN get_registry (sent = client side), unknown if its first line is something else',
                  roles[name_of['a']] is (False if sa == 0 else None))
        ctx.check('the first connection is one connection (not opened again for a later line)', sum(1 for c in mgr.connections()) == (1 if na or sa == 9 else 0) + (1 if nb else 0))
    if nb:
        ctx.check('role of the second connection: from the direction of ITS OWN get_registry (received = server side), unknown if its first line is something else',
                  roles[name_of['b']] is (True if sb == 0 else None))
    ctx.check('all connections closed and still listed', all(not c.is_open() for c in mgr.connections()) and len(mgr.connections()) == (1 if na else 0) + (1 if nb else 0))


def detour(ctx, case):
    """the user selects a connection and later goes back to `connection all` while the two streams keep arriving: selecting is a matter of
    display only - afterwards every connection is announced, listed, and `list *` holds each connection's lines exactly as if it were alone"""
    na, nb = case
    _quiet()
    from core import wl, matcher, util
    from core.connection_manager import ConnectionManager
    from core.output import Output
    from frontends.tui.controller import Controller
    from backends.libwayland_debug_output import parse
    A, B = STREAM_A[:na], STREAM_B[:nb]
    order = []
    ia = ib = 0
    while ia < na or ib < nb:
        pick = ctx.choose(['a', 'b'], 'pick%d' % len(order)) if (ia < na and ib < nb) else ('a' if ia < na else 'b')
        if pick == 'a':
            order.append(('a', A[ia])); ia += 1
        else:
            order.append(('b', B[ib])); ib += 1
    n = len(order)
    p = ctx.choose(list(range(1, n)), 'select_before_line')
    q = ctx.choose(list(range(p, n + 1)), 'all_before_line')
    first = order[0][0]
    name_of = {'a': 'A' if first == 'a' else 'B', 'b': 'A' if first == 'b' else 'B'}
    util.color_output = False
    wl.Message.base_time = None
    out, err = RecStream(), RecStream()
    output = Output(False, True, out, err)
    mgr = ConnectionManager()
    c = Controller(output, mgr, matcher.always, matcher.never)

    class F:
        i = 0
        def readline(self, size=-1):
            if F.i == p:
                c.process_command('connection A')
            if F.i == q:
                c.process_command('connection all')
            F.i += 1
            return order[F.i - 1][1] + chr(10) if F.i <= n else ''
    parse.into_sink(F(), output, mgr)
    ctx.check('no error output', err.items == [])
    ctx.check('both connections exist and are closed at the end', len(mgr.connections()) == 2 and all(not x.is_open() for x in mgr.connections()))
    live_after = [s for s in out.items if _norm.match(s)]
    n0 = len(out.items)
    c.process_command('list *')
    listed = [x for x in out.items[n0:] if _norm.match(x)]
    alone = {}
    for k, S in (('a', A), ('b', B)):
        it, er, _ = _render(S)
        alone[k] = [_norm.sub('', x) for x in it if _norm.match(x)]
    for k in ('a', 'b'):
        got = [_norm.sub('', x) for x in listed if _norm.match(x).group(1) == name_of[k]]
        ctx.check('after the detour `list *` holds the lines of each connection exactly as if it were alone (also of one that opened while another was selected)', got == alone[k])
    # live: every line that arrived while nothing was selected, or on the selected connection, was shown
    want_live = [k for i, (k, l) in enumerate(order) if not (p <= i < q) or name_of[k] == 'A']
    got_live = [{'A': 'a' if name_of['a'] == 'A' else 'b', 'B': 'a' if name_of['a'] == 'B' else 'b'}[_norm.match(x).group(1)] for x in live_after]
    ctx.check('live: lines arriving while all connections are shown (before and after the detour) and lines of the selected one are displayed', got_live == want_live)


def header_tag(ctx, case):
    """the connection a line belongs to is the tag in its HEADER (or the default connection), whatever its string arguments contain"""
    _quiet()
    from core import wl
    from backends.libwayland_debug_output import parse
    tag = ctx.choose([None, '1', '12'], 'header_tag')
    queue = ctx.choose([False, True], 'queue')
    payload = ctx.choose([' <2> ', '<2>', 'x <B> y', ' {q} <3>  -> a#1.b(', '<PARSED>', ' <12> '], 'payload')
    sent = ctx.choose([True, False], 'sent')
    line = '[1000.100]' + (' {Default Queue}' if queue else '') + ((' <%s>' % tag) if tag else '') + ('  -> ' if sent else ' ') + 'wl_thing#5.say(3, "%s", nil)' % payload
    wl.Message.base_time = None
    cid, m = parse.message(line)
    ctx.check('line `%s` belongs to the connection of its header' % line, cid == (tag if tag else 'PARSED'))
    ctx.check('and is decoded as written', m.sent == sent and m.obj.id == 5 and m.name == 'say' and len(m.args) == 3 and m.args[1].value == payload)


def twin(ctx, case):
    frame(ctx, case)
    ctx.check('reachability twin (must be violated)', False)


def obligations(tier):
    import itertools
    fcases = []
    for name in ('x', 'delete_id'):
        for n in (0, 1, 2):
            for kinds in itertools.product(['int', 'obj', 'new'], repeat=n):
                if name == 'delete_id' and n >= 1 and kinds[0] != 'int':
                    continue    # ill-formed: delete_id's argument is the id
                fcases.append((kinds, name))
    return [
        Ob('frame', 'symx', 'one message on X: Y untouched, X as if alone (differential against a single-connection twin); ids symbolic and shared between the connections', FUNCS[:6],
           'ids a != b arbitrary in [2,2^32) used on both connections; X: a alive/dead; Y: three table shapes + one message; message: target arbitrary, <= 2 arguments of kinds int/obj/new, name other/delete_id',
           frame, cases=fcases, stubs=['association-list tables', 'protocol descriptions not loaded']),
        Ob('lifecycle', 'symx', 'open/close/message sequences on the connection-id interface vs a reference history', FUNCS[:6],
           'all sequences of <= %d operations over 3 connection ids (exhaustive)' % (4 if tier == 'quick' else 5), lifecycle, cases=[1, 2, 3, 4] if tier == 'quick' else [1, 2, 3, 4, 5]),
        Ob('interleavings', 'symx', 'every interleaving of two tagged log streams (colliding object ids): per-connection display independent of the interleaving; notices', FUNCS,
           'streams of <= 4 + <= 4 lines, all order-preserving interleavings (exhaustive)', interleave,
           cases=[(a, b) for a in range(0, 5) for b in range(0, 5) if a + b > 0 and (tier != 'quick' or a + b <= 6)] +
                 [(a, b, x, y) for (x, y) in ((1, 0), (0, 1), (1, 1)) for a in (1, 2, 3) for b in (1, 2, 3) if x + a <= 4 and y + b <= 4 and (tier != 'quick' or a + b <= 4)] +
                 [(a, b, 9, 0) for a in (1, 2) for b in (0, 1, 2)] + [(a, b, 'R', 0) for a in (3, 4) for b in (0, 2)] + [(a, b, 'S', 0) for a in (2, 3, 4) for b in (2, 3)]),
        Ob('selection-detour', 'symx', '`connection A` ... `connection all` given at any two points while two tagged streams arrive in any interleaving: afterwards nothing of either connection is missing (list, live)',
           FUNCS + ['frontends.tui.controller:Controller.connection_command'], '3+3 (4+4) lines, every interleaving x every pair of command positions', detour, cases=[(3, 3)] if tier == 'quick' else [(3, 3), (4, 4), (2, 4)]),
        Ob('header-tag', 'symx', 'tag-like text inside string arguments never decides the connection', FUNCS[8:9], '3 header tags x queue or not x 6 payloads x 2 directions', header_tag, cases=[None]),
        Ob('frame-reachable', 'symx', 'reachability twin', FUNCS[:6], '', twin, cases=[(('new', 'obj'), 'x')], expect_cex=True),
    ]
