"""C02 -- every object mention is attributed to the right incarnation of its id"""
from harness import objtable
LEVEL = 'model_checking'
MANIFEST = {'category': 'model_checking', 'engine': 'symx+z3',
 'technique': 'bounded symbolic execution of the real object-table code (symx proxies + z3): one inductive step from an arbitrary valid state vs a reference model',
 'text': "For every path of one ConnectionImpl.message step from an arbitrary valid table (ids fully symbolic in [2,2^32), bounded incarnation/argument counts) z3 proves that every mention resolves to the model's incarnation and the table changes exactly as the model says; induction over the checked invariant extends this to histories of any length. Witnesses are replayed on the real code before being reported. Plus every well-formed history of <= 6 (quick) / 8 (thorough) log lines over ids 2, 3 and a server-range id (create as registry or callback, mention, delete_id, re-use; tagged and untagged) through the real decoder, line loop, manager and display against a reference table: labels, incarnation letters, destruction annotations, lifespans, alive flags, and the connection stays one connection.",
 'note': 'Trusted: z3, lib/symx.py, the association-list replacement of the id dict, the reference model in harness/objtable.py. Bounds: table ids / incarnations / arguments as stated in the evidence. Ill-formed histories are outside the claim.'}
EXPLANATION = ('Bounded symbolic model checking of the real object-table code: one inductive step from an arbitrary valid table with fully '
               'symbolic ids, compared against a reference table model; all paths explored, each check proved by z3 for all values on the path.')
ASSUMPTIONS = ['association-list mapping behaves like dict for int keys', 'histories are well-formed in the sense of the property (see outside_the_claim)',
               'induction: every reachable table satisfies Inv (checked as part of the step), so one step from an arbitrary Inv-state covers any history length']
def obligations(tier):
    return objtable.make_obligations('C02', tier)
