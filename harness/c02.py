"""C02 -- every object mention is attributed to the right incarnation of its id"""
from harness import objtable
LEVEL = 'model_checking'
EXPLANATION = ('Bounded symbolic model checking of the real object-table code: one inductive step from an arbitrary valid table with fully '
               'symbolic ids, compared against a reference table model; all paths explored, each check proved by z3 for all values on the path.')
ASSUMPTIONS = ['association-list mapping behaves like dict for int keys', 'histories are well-formed in the sense of the property (see outside_the_claim)',
               'induction: every reachable table satisfies Inv (checked as part of the step), so one step from an arbitrary Inv-state covers any history length']
def obligations(tier):
    return objtable.make_obligations('C02', tier)
