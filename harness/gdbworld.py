"""libwayland's data structures in the fake gdb's typed memory (layouts as in wayland-private.h /
wayland-util.h / wayland-server.c), and builders for closures and frames"""
import os, sys

_FAKE = os.path.join(os.path.dirname(os.path.dirname(os.path.abspath(__file__))), 'lib', 'fakegdb')


def install():
    """make `import gdb` resolve to the fake; returns (gdb, extract, plugin)"""
    if _FAKE not in sys.path:
        sys.path.insert(0, _FAKE)
    import importlib
    import gdb
    if not getattr(gdb, '_wl_types', None):
        _define_types(gdb)
    extract = importlib.import_module('backends.gdb_plugin.extract')
    plugin = importlib.import_module('backends.gdb_plugin.plugin')
    return gdb, extract, plugin


def _define_types(gdb):
    CP = gdb.CHAR.pointer()
    VP = gdb.VOID.pointer()
    T = {}
    T['wl_interface'] = gdb.declare('wl_interface')
    T['wl_message'] = gdb.struct('wl_message', [('name', CP), ('signature', CP), ('types', T['wl_interface'].pointer().pointer())])
    gdb.define(T['wl_interface'], [('name', CP), ('version', gdb.INT), ('method_count', gdb.INT), ('methods', T['wl_message'].pointer()),
                                   ('event_count', gdb.INT), ('events', T['wl_message'].pointer())])
    T['wl_object'] = gdb.struct('wl_object', [('interface', T['wl_interface'].pointer()), ('implementation', VP), ('id', gdb.UINT)])
    T['wl_array'] = gdb.struct('wl_array', [('size', gdb.Type('size_t', gdb.TYPE_CODE_INT, sizeof=8)), ('alloc', gdb.Type('size_t', gdb.TYPE_CODE_INT, sizeof=8)), ('data', VP)])
    T['wl_argument'] = gdb.Type('wl_argument', gdb.TYPE_CODE_UNION, fields=[gdb.Field(n, 0, gdb.INT) for n in 'iufsonah'], sizeof=8)
    T['args_array'] = gdb.Type(None, gdb.TYPE_CODE_ARRAY, target=T['wl_argument'], sizeof=8 * 20)
    T['wl_proxy'] = gdb.declare('wl_proxy')
    T['wl_closure'] = gdb.struct('wl_closure', [('count', gdb.INT), ('message', T['wl_message'].pointer()), ('opcode', gdb.UINT), ('sender_id', gdb.UINT),
                                              ('args', T['args_array']), ('link_prev', VP), ('link_next', VP), ('proxy', T['wl_proxy'].pointer())])
    T['wl_connection'] = gdb.declare('wl_connection')
    T['wl_client'] = gdb.struct('wl_client', [('connection', T['wl_connection'].pointer()), ('source', VP), ('display', VP)])
    T['wl_resource'] = gdb.struct('wl_resource', [('object', T['wl_object']), ('destroy', VP), ('link_prev', VP), ('link_next', VP), ('deprecated_destroy_signal', VP),
                                                ('client', T['wl_client'].pointer()), ('data', VP)])
    T['wl_display'] = gdb.struct('wl_display', [('proxy_object', T['wl_object']), ('proxy_display', VP), ('proxy_queue', VP), ('flags', gdb.UINT), ('refcount', gdb.INT),
                                              ('connection', T['wl_connection'].pointer())])
    gdb._wl_types = T


class Closure:
    """description of one closure (the specification side keeps this; the fake memory is built from it)"""

    def __init__(self, name, signature, args, types, sender_id, iface='wl_thing'):
        self.name, self.signature, self.args, self.types, self.sender_id, self.iface = name, signature, args, types, sender_id, iface


def build_closure(gdb, c):
    """c.args: list of dicts {code, value / null / id / elems ...} one per type code in the signature"""
    T = gdb._wl_types
    CP = gdb.CHAR.pointer()
    slots = []
    types = []
    for a in c.args:
        u = {}
        code = a['code']
        # all members of the union alias the same storage; members other than the live one hold junk
        junk = gdb.Value(gdb.INT, 0x5a5a5a)
        for m in 'iufsonah':
            u[m] = junk
        if code in 'iufh':
            u[code] = gdb.Value(gdb.INT if code != 'u' else gdb.UINT, a['value'])
        elif code == 's':
            u['s'] = gdb.Value(CP, a['value'])          # str or None
        elif code == 'o':
            if a.get('null'):
                u['o'] = gdb.Value(T['wl_object'].pointer(), None)
            else:
                u['o'] = gdb.Value(T['wl_object'].pointer(), gdb.Obj(T['wl_object'], {
                    'interface': gdb.Value(T['wl_interface'].pointer(), None), 'implementation': gdb.Value(gdb.VOID.pointer(), None),
                    'id': gdb.Value(gdb.UINT, a['id'])}, addr=0x4000 + 64 * len(slots)))
        elif code == 'n':
            u['n'] = gdb.Value(gdb.UINT, a['id'])
            # on the client side the slot holds the proxy (a wl_object) instead of the number
            u['o'] = gdb.Value(T['wl_object'].pointer(), gdb.Obj(T['wl_object'], {
                'interface': gdb.Value(T['wl_interface'].pointer(), None), 'implementation': gdb.Value(gdb.VOID.pointer(), None),
                'id': gdb.Value(gdb.UINT, a['proxy_id'])}, addr=0x5000 + 64 * len(slots)))
        elif code == 'a':
            elems = [gdb.Value(gdb.INT, e) for e in a['elems']]
            u['a'] = gdb.Value(T['wl_array'].pointer(), gdb.Obj(T['wl_array'], {
                'size': gdb.Value(gdb.INT, 4 * len(elems) + a.get('extra_bytes', 0)), 'alloc': gdb.Value(gdb.INT, 64), 'data': gdb.Value(gdb.VOID.pointer(), elems)},
                addr=0x6000 + 64 * len(slots)))
        slots.append(gdb.Value(T['wl_argument'], u))
        tn = a.get('type')
        if tn is None:
            types.append(gdb.Value(T['wl_interface'].pointer(), None))
        else:
            types.append(gdb.Value(T['wl_interface'].pointer(), gdb.Obj(T['wl_interface'], {'name': gdb.Value(CP, tn)}, addr=0x8000 + 64 * len(types))))
    while len(slots) < 20:
        slots.append(gdb.Value(T['wl_argument'], {m: gdb.Value(gdb.INT, 0x6b6b6b) for m in 'iufsonah'}))
        types.append(gdb.Value(T['wl_interface'].pointer(), None))
    msg = gdb.Obj(T['wl_message'], {'name': gdb.Value(CP, c.name), 'signature': gdb.Value(CP, c.signature),
                                    'types': gdb.Value(T['wl_interface'].pointer().pointer(), types)}, addr=0x2000)
    clo = gdb.Obj(T['wl_closure'], {'count': gdb.Value(gdb.INT, len(c.args)), 'message': gdb.Value(T['wl_message'].pointer(), msg),
                                    'opcode': gdb.Value(gdb.UINT, 3), 'sender_id': gdb.Value(gdb.UINT, c.sender_id),
                                    'args': gdb.Value(T['args_array'], slots), 'link_prev': gdb.Value(gdb.VOID.pointer(), None),
                                    'link_next': gdb.Value(gdb.VOID.pointer(), None), 'proxy': gdb.Value(T['wl_proxy'].pointer(), None)}, addr=0x3000)
    return gdb.Value(T['wl_closure'].pointer(), clo)


def connection_value(gdb, addr):
    T = gdb._wl_types
    return gdb.Value(T['wl_connection'].pointer(), gdb.Obj(T['wl_connection'], {}, addr=addr))


def frames_received(gdb, closure, side, conn_addr, iface, nested=False):
    """frame of wl_closure_invoke/dispatch with its caller (dispatch_event on the client, wl_client_connection_data on the server)"""
    T = gdb._wl_types
    CP = gdb.CHAR.pointer()
    conn = connection_value(gdb, conn_addr)
    ifc = gdb.Value(T['wl_interface'].pointer(), gdb.Obj(T['wl_interface'], {'name': gdb.Value(CP, iface)}, addr=0x9000))
    wl_object = gdb.Obj(T['wl_object'], {'interface': ifc, 'implementation': gdb.Value(gdb.VOID.pointer(), None), 'id': gdb.Value(gdb.UINT, 0)}, addr=0xa000)
    if side == 'client':
        display = gdb.Value(T['wl_display'].pointer(), gdb.Obj(T['wl_display'], {
            'proxy_object': gdb.Value(T['wl_object'], wl_object), 'proxy_display': gdb.Value(gdb.VOID.pointer(), None), 'proxy_queue': gdb.Value(gdb.VOID.pointer(), None),
            'flags': gdb.Value(gdb.UINT, 0), 'refcount': gdb.Value(gdb.INT, 1), 'connection': conn}, addr=0xb000))
        parent = gdb.Frame('dispatch_event', {'display': display})
        target = gdb.Value(T['wl_object'].pointer(), wl_object)
    else:
        client = gdb.Value(T['wl_client'].pointer(), gdb.Obj(T['wl_client'], {'connection': conn, 'source': gdb.Value(gdb.VOID.pointer(), None), 'display': gdb.Value(gdb.VOID.pointer(), None)}, addr=0xc000))
        resource = gdb.Obj(T['wl_resource'], {'object': gdb.Value(T['wl_object'], wl_object), 'destroy': gdb.Value(gdb.VOID.pointer(), None),
                                             'link_prev': gdb.Value(gdb.VOID.pointer(), None), 'link_next': gdb.Value(gdb.VOID.pointer(), None),
                                             'deprecated_destroy_signal': gdb.Value(gdb.VOID.pointer(), None), 'client': client, 'data': gdb.Value(gdb.VOID.pointer(), None),
                                             'interface': ifc}, addr=0xd000)
        parent = gdb.Frame('wl_client_connection_data', {})
        # `target` is a wl_object* that is really the first member of a wl_resource
        target = gdb.Value(T['wl_object'].pointer(), resource)
    if nested:
        # a process that is both a client and a server (nested compositor): further out on the stack there is a dispatch of the OTHER kind,
        # belonging to another connection; the caller of wl_closure_invoke decides, not anything further out
        other = connection_value(gdb, 0x66660000)
        if side == 'client':
            outer = gdb.Frame('wl_client_connection_data', {})
        else:
            d2 = gdb.Value(T['wl_display'].pointer(), gdb.Obj(T['wl_display'], {
                'proxy_object': gdb.Value(T['wl_object'], wl_object), 'proxy_display': gdb.Value(gdb.VOID.pointer(), None), 'proxy_queue': gdb.Value(gdb.VOID.pointer(), None),
                'flags': gdb.Value(gdb.UINT, 0), 'refcount': gdb.Value(gdb.INT, 1), 'connection': other}, addr=0xb800))
            outer = gdb.Frame('dispatch_event', {'display': d2})
        mid = gdb.Frame('handler_in_the_program', {}, older=gdb.Frame('wl_closure_invoke', {'closure': closure, 'target': target}, older=outer))
        parent._older = mid
    return gdb.Frame('wl_closure_invoke', {'closure': closure, 'target': target}, older=parent)


def frames_sent(gdb, closure, conn_addr):
    parent = gdb.Frame('wl_closure_send', {'closure': closure, 'connection': connection_value(gdb, conn_addr)})
    return gdb.Frame('serialize_closure', {}, older=parent)


class PluginWorld:
    pass


def make_plugin(display=None, stop=None):
    """real ConnectionManager + Controller + gdb Plugin over the fake gdb"""
    import logging
    logging.disable(logging.CRITICAL)
    gdb, extract, plugin = install()
    gdb.reset()
    from core import wl, matcher
    from core.connection_manager import ConnectionManager
    from core.output import Output
    from frontends.tui.controller import Controller
    from core.wl import protocol
    from lib.stubs import RecStream
    protocol.interfaces.clear()
    wl.Message.base_time = 0.0
    extract.__dict__.pop('int', None)
    extract.__dict__.pop('float', None)
    extract.time_now = lambda: 0.0
    plugin.time_now = lambda: 0.0
    extract.gdb_fast_access_map.clear()
    w = PluginWorld()
    w.gdb, w.extract, w.pmod = gdb, extract, plugin
    w.out, w.err = RecStream(), RecStream()
    w.output = Output(False, True, w.out, w.err)
    w.manager = ConnectionManager()
    w.ctl = Controller(w.output, w.manager, display if display is not None else matcher.always, stop if stop is not None else matcher.never)
    w.plugin = plugin.Plugin(w.output, w.manager, w.ctl, w.ctl)
    bps = {b.location: b for b in gdb._State.breakpoints}
    w.bp_destroy = bps['wl_connection_destroy']
    w.bp_invoke = bps['wl_closure_invoke']
    w.bp_dispatch = bps['wl_closure_dispatch']
    w.bp_send = bps['serialize_closure']
    w.commands = {c.cmd_name: c for c in gdb._State.commands}
    return w


def fire_message(w, addr, thread, name, sent, tag=None, side='client', strarg=None):
    """libwayland hits one of the closure breakpoints; returns what stop() tells GDB"""
    gdb = w.gdb
    if strarg is not None:
        clo = build_closure(gdb, Closure(name, 'su', [{'code': 's', 'value': strarg}, {'code': 'u', 'value': tag if tag is not None else 0}], None, 1, 'wl_display'))
    else:
        clo = build_closure(gdb, Closure(name, 'u', [{'code': 'u', 'value': tag if tag is not None else 0}], None, 1, 'wl_display'))
    gdb._State.thread = gdb._Thread(thread)
    if sent:
        gdb._State.frame = frames_sent(gdb, clo, addr)
        return w.bp_send.stop()
    gdb._State.frame = frames_received(gdb, clo, side, addr, 'wl_display')
    return w.bp_invoke.stop()


def fire_closure(w, addr, thread, closure, sent, side='client', iface='wl_display'):
    """any closure (a gdbworld.Closure) hits a closure breakpoint"""
    gdb = w.gdb
    clo = build_closure(gdb, closure)
    gdb._State.thread = gdb._Thread(thread)
    if sent:
        gdb._State.frame = frames_sent(gdb, clo, addr)
        return w.bp_send.stop()
    gdb._State.frame = frames_received(gdb, clo, side, addr, iface)
    return w.bp_invoke.stop()


def fire_destroy(w, addr, thread=1):
    gdb = w.gdb
    gdb._State.thread = gdb._Thread(thread)
    gdb._State.frame = gdb.Frame('wl_connection_destroy', {'connection': connection_value(gdb, addr)})
    return w.bp_destroy.stop()
