"""C15 -- GDB mode follows libwayland's connections as they come and go"""
from lib.runner import Ob
from lib import symx

LEVEL = 'model_checking'
MANIFEST = {'category': 'model_checking', 'engine': 'symx+z3',
 'technique': 'exhaustive bounded exploration (symx choose) of libwayland event sequences through the real gdb Plugin (breakpoint stop() methods, real extract over typed fake memory, real ConnectionManager) against a reference connection history',
 'text': 'Every sequence of <= 3 (quick) / 4 (thorough) events over 2 connection addresses and 2 threads - message sent / received / get_registry in either direction, wl_connection_destroy of a known, an already closed or a never-seen connection, address reuse after destruction - run through the real breakpoints: no exception leaves stop(); the first message on an unknown or closed address opens a new connection with the next name, an empty table and the role get_registry implies; destruction closes exactly the connection at that address and is a no-op otherwise; messages from other threads are recorded normally; every other connection keeps its state. Every recorded message is attributed to an object of its own connection. Two connections (another address, or the same after destruction) each bind the same id to the same or different interfaces and mention it: own table, own interface, nothing leaves stop().',
 'note': 'Exhaustive within the bound; every path is a concrete run of the real plugin over the fake gdb. Trusted: lib/fakegdb, harness/gdbworld.py (frame/variable names as in libwayland).'}
EXPLANATION = MANIFEST['text']
ASSUMPTIONS = ['fake gdb frames carry the variables libwayland\'s functions have (closure, target, display, connection)', 'time_now stubbed']
FUNCS = ['backends.gdb_plugin.plugin:Plugin.__init__', 'backends.gdb_plugin.plugin:Plugin.open_connection', 'backends.gdb_plugin.plugin:Plugin.close_connection',
         'backends.gdb_plugin.plugin:Plugin.process_message', 'backends.gdb_plugin.plugin:WlConnectionDestroyBreakpoint.stop', 'backends.gdb_plugin.plugin:WlClosureCallBreakpoint.stop',
         'backends.gdb_plugin.extract:connection_id_of', 'backends.gdb_plugin.extract:sent_message', 'backends.gdb_plugin.extract:received_message',
         'core.connection_manager:ConnectionManager.open_connection', 'core.connection_manager:ConnectionManager.close_connection']

ADDRS = [0x55550010, 0x7fffe000]
EVENTS = ([('msg', a, t, k) for a in (0, 1) for t in (1, 2) for k in ('greg_sent', 'greg_recv', 'other_sent', 'other_recv')] +
          [('destroy', a, t, None) for a in (0, 1) for t in (1,)])


def history(ctx, case):
    n = case
    from harness import gdbworld
    from core.letter_id_generator import number_to_letter_id
    w = gdbworld.make_plugin()
    ref = []            # [addr index, open, role, nmsgs] in creation order
    tag = 0
    for step in range(n):
        kind, a, thread, what = ctx.choose(EVENTS, 'event%d' % step)
        before = [(c, c.is_open(), len(c.messages()), c.is_server(), c.name()) for c in w.manager.connections()]
        cur = [i for i, r in enumerate(ref) if r[0] == a and r[1]]
        if kind == 'msg':
            tag += 1
            sent = what.endswith('sent')
            name = 'get_registry' if what.startswith('greg') else 'sync'
            # the process is a nested compositor: the first address is a connection it holds as a client, the second one it serves
            n_out = len(w.out.items)
            ret = gdbworld.fire_message(w, ADDRS[a], thread, name, sent, tag, side='client' if a == 0 else 'server')
            from core import util
            shown = [util.no_color(x) for x in w.out.items[n_out:] if ('.' + name + '(') in x]
            ctx.check('the message is displayed once, naming the object it was attributed to with its incarnation letter (whatever the thread)',
                      len(shown) == 1 and 'wl_display@1a.' + name + '(' in shown[0])
            ctx.check('stop() tells GDB to keep running (no breakpoint matcher set)', ret is False)
            if not cur:
                role = (not sent) if name == 'get_registry' else None
                ref.append([a, True, role, 1])
                conns = w.manager.connections()
                ctx.check('first message on an unknown / closed address opens one new connection', len(conns) == len(before) + 1)
                if len(conns) == len(before) + 1:
                    c = conns[-1]
                    ctx.check('with the next name', c.name() == number_to_letter_id(len(ref) - 1, True))
                    ctx.check('role from the direction of get_registry, unknown otherwise', c.is_server() is role)
                    ctx.check('with a fresh object table and exactly this message', list(c.db.keys()) == [1] and len(c.messages()) == 1 and c.messages()[0].args[0].value == tag)
                    ctx.check('open', c.is_open())
                    ctx.check('the message is attributed to an object of THIS connection (fresh table: its own wl_display)', c.messages()[-1].obj.resolved() and c.messages()[-1].obj is c.wl_display())
            else:
                ref[cur[-1]][3] += 1
                c = before[cur[-1]][0]
                ctx.check('no new connection for a known open address', len(w.manager.connections()) == len(before))
                ctx.check('message recorded on the connection of that address, whatever the thread', len(c.messages()) == before[cur[-1]][2] + 1 and c.messages()[-1].args[0].value == tag)
                ctx.check('and attributed to an object of THAT connection', c.messages()[-1].obj.resolved() and c.messages()[-1].obj is c.wl_display())
        else:
            ret = gdbworld.fire_destroy(w, ADDRS[a], thread)
            ctx.check('stop() of the destroy breakpoint never halts the program', ret is False)
            ctx.check('destruction never creates a connection', len(w.manager.connections()) == len(before))
            if cur:
                ref[cur[-1]][1] = False
                ctx.check('destruction closes the connection at that address', not before[cur[-1]][0].is_open())
        # everything else untouched
        conns = w.manager.connections()
        ctx.check('as many connections as the reference history has (none opened or re-opened behind libwayland\'s back)', len(conns) == len(ref))
        if len(conns) != len(ref):
            return
        for i, (c, was_open, nmsg, role, name) in enumerate(before):
            exp = ref[i]
            ctx.check('open flag of every connection as per the reference history', c.is_open() == exp[1])
            ctx.check('message count of every connection as per the reference history', len(c.messages()) == exp[3])
            ctx.check('name and role never change', c.name() == name and c.is_server() is role)
        ctx.check('plugin bookkeeping: exactly the open addresses are known', sorted(w.plugin.connections.keys()) == sorted('gdb_conn:' + hex(ADDRS[r[0]]) for r in ref if r[1]))
        ctx.check('no Error: line', not any('Error' in e for e in w.err.items))
        for i, c in enumerate(w.manager.connections()):
            news = [x for x in w.out.items if x.startswith('New ') and x.endswith(' connection ' + c.name())]
            closed = [x for x in w.out.items if x.startswith('Closed ') and x.endswith(' connection ' + c.name())]
            ctx.check('each connection is announced once and reported closed exactly when it was destroyed (once)', len(news) == 1 and len(closed) == (0 if ref[i][1] else 1))


def binds(ctx, case):
    """two connections (the second at another address, or at the same address after the first was destroyed or not) each create their registry
    and bind the SAME object id to possibly different interfaces; an object argument then mentions it: nothing leaves stop(), and each
    connection's table holds its own object of its own interface"""
    from harness import gdbworld
    from harness.gdbworld import Closure
    w = gdbworld.make_plugin()
    second_addr = ctx.choose([ADDRS[1], ADDRS[0]], 'second_address')
    destroy_between = ctx.choose([True, False], 'first_destroyed') if second_addr == ADDRS[0] else ctx.choose([False, True], 'first_destroyed')
    ifaces = (ctx.choose(['wl_a', 'wl_b'], 'iface0'), ctx.choose(['wl_b', 'wl_a'], 'iface1'))
    threads = (1, ctx.choose([1, 2], 'thread1'))
    oid = ctx.choose([3, 4278190081], 'object_id')

    def session(k, addr):
        rets = []
        rets.append(gdbworld.fire_closure(w, addr, threads[k], Closure('get_registry', 'n', [{'code': 'n', 'id': 2, 'proxy_id': 2, 'type': 'wl_registry'}], None, 1), True))
        rets.append(gdbworld.fire_closure(w, addr, threads[k], Closure('bind', 'usun', [{'code': 'u', 'value': 1}, {'code': 's', 'value': ifaces[k]}, {'code': 'u', 'value': 1},
                                                                                       {'code': 'n', 'id': oid, 'proxy_id': oid, 'type': None}], None, 2), True))
        rets.append(gdbworld.fire_closure(w, addr, threads[k], Closure('poke', 'o', [{'code': 'o', 'null': False, 'id': oid, 'type': None}], None, oid), True))
        return rets
    r0 = session(0, ADDRS[0])
    c0 = w.manager.connections()[-1] if w.manager.connections() else None
    if destroy_between:
        gdbworld.fire_destroy(w, ADDRS[0], 1)
    if second_addr == ADDRS[0] and not destroy_between:
        # same connection goes on: a second bind of the same id is ill-formed; use another id for it
        return
    r1 = session(1, second_addr)
    ctx.check('stop() keeps the program running for every message', all(r is False for r in r0 + r1))
    ctx.check('no Error: line', not any('Error' in e for e in w.err.items))
    conns = w.manager.connections()
    ctx.check('two connections', len(conns) == 2)
    if len(conns) != 2:
        return
    for k, c in enumerate(conns):
        objs = c.db.get(oid) or []
        ctx.check('connection %d: its table holds ONE object with the bound id, of the interface IT bound' % k, len(objs) == 1 and objs[0].type == ifaces[k])
        ctx.check('connection %d: three messages, all attributed to objects of this connection' % k, len(c.messages()) == 3 and all(m.obj.resolved() and m.obj.connection is c for m in c.messages()))
        if len(c.messages()) == 3 and objs:
            ctx.check('connection %d: the mention goes to its own object' % k, c.messages()[2].args[0].obj is objs[0] and c.messages()[2].obj is objs[0])


def many_connections(ctx, case):
    """a compositor under GDB holds hundreds of connections at once: each stays the connection it is for as long as libwayland has not destroyed it,
    however many others are open and however long it has been quiet"""
    K = case
    from harness import gdbworld
    w = gdbworld.make_plugin()
    base = 0x7f0000001000
    for i in range(K):
        gdbworld.fire_message(w, base + 0x100 * i, 1, 'sync', True, i)
    conns = list(w.manager.connections())
    ctx.check('one connection per libwayland connection seen', len(conns) == K and all(c.is_open() for c in conns))
    pick = ctx.choose([0, 1, K // 2, K - 1], 'speaks_again')
    gone = ctx.choose([None, 2, K - 2], 'destroyed_meanwhile')
    if gone is not None:
        gdbworld.fire_destroy(w, base + 0x100 * gone)
    n0 = len(w.out.items)
    gdbworld.fire_message(w, base + 0x100 * pick, 1, 'sync', True, 7)
    after = list(w.manager.connections())
    ctx.check('a message on a connection that was quiet for long goes to THAT connection (no new one, none closed)',
              len(after) == K and after == conns and len(conns[pick].messages()) == 2 and conns[pick].is_open())
    ctx.check('exactly the destroyed connection is closed', [i for i, c in enumerate(conns) if not c.is_open()] == ([gone] if gone is not None else []))
    ctx.check('one Closed notice per destroyed connection, no New notice for a known one',
              len([x for x in w.out.items if x.startswith('Closed ')]) == (1 if gone is not None else 0) and not any(x.startswith('New ') for x in w.out.items[n0:]))


def twin(ctx, case):
    history(ctx, case)
    ctx.check('reachability twin (must be violated)', False)


def obligations(tier):
    ns = [1, 2, 3] if tier == 'quick' else [1, 2, 3, 4]
    bounds = 'all sequences of <= %d events from %d event kinds (2 addresses x 2 threads x 4 message kinds, destroy of either address)' % (ns[-1], len(EVENTS))
    return [Ob('event-histories', 'symx', 'libwayland event sequences through the real plugin vs a reference connection history', FUNCS, bounds, history, cases=ns,
               stubs=['fake gdb', 'time_now stubbed'], budget_s=2400),
            Ob('binds-on-two-connections', 'symx', 'two connections bind the same id (client or server range) to the same or different interfaces, then mention it: own table, own interface, nothing leaves stop()',
               FUNCS + ['backends.gdb_plugin.extract:extract_message', 'core.wl.message:Message.resolve', 'core.wl.arg:Arg.Object.set_type'],
               '2 addresses (other / same after destroy) x 2 x 2 interfaces x 2 threads x 2 ids', binds, cases=[None]),
            Ob('many-connections', 'symx', 'hundreds of simultaneously open connections: a quiet one stays itself; only destroyed ones are closed', FUNCS,
               '129, 200, 300%s connections x which one speaks again x one destroyed meanwhile or not' % ('' if tier == 'quick' else ', 1100'), many_connections,
               cases=[129, 200, 300] if tier == 'quick' else [129, 200, 300, 1100], stubs=['fake gdb']),
            Ob('event-histories-reachable', 'symx', 'reachability twin', FUNCS, bounds, twin, cases=[2], expect_cex=True)]
