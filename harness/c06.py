"""C06 -- the live view shows exactly the messages matching the current filter"""
from lib.runner import Ob
from lib import symx
from harness import ctl

LEVEL = 'model_checking'
MANIFEST = {'category': 'model_checking', 'engine': 'symx+z3',
 'technique': 'symbolic execution of one live-view step (ConnectionManager.message -> ConnectionImpl.message -> listener fan-out -> Controller) from an arbitrary controller state with solver-chosen filter/breakpoint verdicts',
 'text': 'From every controller state (selection none/A/B, <= 3 recorded messages, abstract filter and breakpoint leaves with symbolic verdicts), optionally after one filter/connection command, one or two arriving messages: z3 proves the out stream gains exactly the message lines of the arrivals that are on the selected connection and match the (accumulated) filter, in arrival order, and that all_messages / Connection.messages() gain every arrival whatever the verdicts; commands print no message line and leave the records untouched. One step from an arbitrary state covers histories of any length. Plus, with nothing stubbed (real decoder, line loop, manager, controller, Message.show, Output): streams of <= 3 (4) further lines from a pool with IDENTICAL consecutive lines, time steps from 0 to more than an hour, two connections, five real matcher texts as filter - the message lines shown are exactly the matching ones, each once, in arrival order, and every message is recorded.',
 'note': 'Trusted: z3, lib/symx.py. Filters are abstract leaves (C05 covers real matchers, C12 accumulation). Message line text stubbed (C16/C17).'}
EXPLANATION = MANIFEST['text']
ASSUMPTIONS = ['abstract matcher leaves', 'Message.show stubbed to a tagged line', 'matcher.parse stubbed for the filter command (text -> a fresh leaf)']
FUNCS = ['core.connection_manager:ConnectionManager.message', 'core.connection_impl:ConnectionImpl.message', 'core.util:generate_disseminator',
         'frontends.tui.controller:Controller.connection_got_new_message', 'frontends.tui.controller:Controller._show_message',
         'frontends.tui.controller:Controller.process_command', 'frontends.tui.controller:Controller.filter_command', 'frontends.tui.controller:Controller.connection_command']


def step(ctx, case):
    pre, sel, cmd, arrivals = case[:4]
    closed = case[4] if len(case) > 4 else None
    from core import matcher
    w = ctl.make_world(ctx, 2, display=matcher.never)
    try:
        for ci in pre:
            ctl.add_message(w, ci)
        F = ctl.SymLeaf(ctx, 'filter')
        B = ctl.SymLeaf(ctx, 'break')
        w.ctl.display_matcher = F
        w.ctl.stop_matcher = B
        sel_conn = w.conns[sel] if sel is not None else None
        if sel is not None:
            w.ctl.current_connection = sel_conn
        reopened = None
        if closed is not None and closed >= 10:
            # the connection id is closed and opened again: a NEW connection (new name, empty records); the old one stays listed
            reopened = closed - 10
            old = w.conns[reopened]
            w.conns[reopened] = w.manager.open_connection(5.0, 'conn%d' % reopened, None)
            ctx.check('re-opening gives a new connection', w.conns[reopened] is not old and not old.is_open())
        elif closed is not None:
            # the connection is gone (it stays listed and may stay selected); arrivals come on the other one
            w.manager.close_connection(5.0, 'conn%d' % closed)
        F2 = None
        cur_sel = sel
        rec_before = (list(w.ctl.all_messages), [c.messages() for c in w.conns])
        n0 = len(w.out.items)
        if cmd == 'filter':
            F2 = ctl.SymLeaf(ctx, 'filter2')
            saved = matcher.parse
            matcher.parse = lambda text: F2
            try:
                w.ctl.process_command(ctx.choose(['filter xyz', 'f xyz', 'wlfilter xyz'], 'spelling'))
            finally:
                matcher.parse = saved
        elif cmd == 'conn0':
            w.ctl.process_command('connection A'); cur_sel = 0
        elif cmd == 'conn1':
            w.ctl.process_command(ctx.choose(['connection B', 'c b'], 'spelling')); cur_sel = 1
        elif cmd == 'all':
            w.ctl.process_command('connection all'); cur_sel = None
        elif cmd == 'typo':
            # a name that is no connection: an error line, and the selection stays what it was
            w.ctl.process_command(ctx.choose(['connection zz', 'c Q', 'connection a b'], 'spelling'))
        if cmd is not None:
            ctx.check('a command prints no message line', ctl.msg_lines(w.out.items[n0:]) == [])
            ctx.check('a command leaves the records untouched', (list(w.ctl.all_messages), [c.messages() for c in w.conns]) == rec_before)
            exp_sel = sel_conn if cmd in ('filter', 'typo') else (w.conns[cur_sel] if cur_sel is not None else None)
            ctx.check('selection after the command', w.ctl.current_connection is exp_sel)
        n1 = len(w.out.items)
        arrived = []
        from core import wl
        for k, ci in enumerate(arrivals):
            # messages the connection-naming code looks at (and may choke on) are messages like any other
            kind = ctx.choose(['plain', 'title', 'title-empty', 'app-id', 'app-id-not-a-string', 'layer-surface-short', 'unknown-object', 'untyped-new-id'], 'kind%d' % k) if k == 0 else 'plain'
            name, args = {'plain': ('sync', ()), 'title': ('set_title', (wl.Arg.String('a title'),)), 'title-empty': ('set_title', (wl.Arg.String(''),)),
                          'app-id': ('set_app_id', (wl.Arg.String('org.x.App'),)), 'app-id-not-a-string': ('set_app_id', (wl.Arg.Int(3),)),
                          'layer-surface-short': ('get_layer_surface', (wl.Arg.Int(1),)), 'unknown-object': ('poke', ()), 'untyped-new-id': ('make', (wl.Arg.Object(wl.UnresolvedObject(42, None), True),))}[kind]
            arrived.append((ctl.add_message(w, ci, name=name, args=args, target_id=1 if kind != 'unknown-object' else 99), ci))
        shown = ctl.msg_lines(w.out.items[n1:])
        exp_order = [m.tag for m, ci in arrived]
        ctx.check('only arriving messages are shown, each at most once, in arrival order', [t for t in exp_order if t in shown] == shown)
        for m, ci in arrived:
            selected = w.ctl.current_connection
            onsel = selected is None or selected is w.conns[ci]
            v = F.verdict(m)
            if F2 is not None:
                v = v | F2.verdict(m) if ctx.symbolic else (v or F2.verdict(m))
            real = m.tag in shown
            if not onsel:
                ctx.check('a message on another connection than the selected one is not shown', not real)
            elif ctx.symbolic:
                ctx.check('message shown iff it matches the current filter', v if real else ~v)
            else:
                ctx.check('message shown iff it matches the current filter', real == bool(v))
        ctx.check('every arrival is recorded in arrival order, shown or not', w.ctl.all_messages == rec_before[0] + [m for m, _ in arrived])
        for k in (0, 1):
            ctx.check('each connection records exactly its own arrivals', w.conns[k].messages() == rec_before[1][k] + tuple(m for m, ci in arrived if ci == k))
        ctx.check('no error output', w.err.items == [] or cmd == 'typo')
        # a later `list *` (all connections) shows every recorded message, in order
        w.ctl.process_command('connection all')
        n2 = len(w.out.items)
        w.ctl.process_command('list *')
        ctx.check('`list *` afterwards shows every recorded message once, oldest first', ctl.msg_lines(w.out.items[n2:]) == [m.tag for m, _ in w.msgs])
        for c in w.manager.connections():
            w.ctl.process_command('connection ' + c.name())
            n3 = len(w.out.items)
            w.ctl.process_command('list *')
            ctx.check('with a connection selected `list *` shows exactly what that connection recorded (also messages on objects it could not resolve)',
                      ctl.msg_lines(w.out.items[n3:]) == [m.tag for m in c.messages()])
    finally:
        ctl.restore_show()


def rendered(ctx, case):
    """the live view with nothing stubbed: real decoder, line loop, manager, controller, Message.show and Output. Streams of lines chosen from a
    pool that contains IDENTICAL consecutive lines, time steps from 0 to more than an hour and two connections; real matcher texts as the filter"""
    import re, io
    from core import wl, matcher, util
    from core.connection_manager import ConnectionManager
    from core.output import Output
    from frontends.tui.controller import Controller
    from backends.libwayland_debug_output import parse
    from core.wl import protocol
    from lib.stubs import RecStream
    import logging
    logging.disable(logging.CRITICAL)
    n, ftext = case[:2]
    first_body = case[2] if len(case) > 2 else None
    protocol.interfaces.clear()
    util.color_output = False
    wl.Message.base_time = None
    pool = ['wl_registry@2.global(1, "wl_a", 1)', ' -> wl_registry@2.bind(1, "wl_a", 1, new id [unknown]@3)', 'wl_a@3.poke(wl_registry@2, nil)', 'wl_registry@2.global_remove(1)']
    steps = [0, 40, 500000, 61000000, 3700000000]          # microseconds
    t = 5000000
    lines = ['[%d.%03d] <%s>  -> wl_display@1.get_registry(new id wl_registry@2)' % (t // 1000, t % 1000, c) for c in ('1', '2')]
    if first_body == 'reuse':
        # object ids are recycled: id 3 is a wl_a, is deleted, and comes back as a wl_b (what `wl_surface@4a` ... `wl_region@4b` is in a real session);
        # the filter is asked about both holders of the id, in this order, any number of times
        script = [' -> wl_registry@2.bind(1, "wl_a", 1, new id [unknown]@3)', 'wl_a@3.poke(wl_registry@2, nil)', 'wl_display@1.delete_id(3)',
                  ' -> wl_registry@2.bind(2, "wl_b", 1, new id [unknown]@3)', 'wl_b@3.poke(wl_registry@2, nil)', ' -> wl_b@3.poke(wl_b@3, nil)']
        rep = [ctx.choose([1, 2], 'repeat%d' % j) if j in (1, 4) else 1 for j in range(len(script))]
        for j, body in enumerate(script):
            for _ in range(rep[j]):
                t += steps[(j + n) % 3]
                lines.append('[%d.%03d] <1> %s' % (t // 1000, t % 1000, body))
        n = 0
    for k in range(n):
        body = pool[first_body] if (k == 0 and first_body is not None) else ctx.choose(pool, 'line%d' % k)
        t += ctx.choose(steps, 'step%d' % k)
        tag = '1' if k == 0 else ctx.choose(['1', '2'], 'tag%d' % k)
        lines.append('[%d.%03d] <%s> %s' % (t // 1000, t % 1000, tag, body))
    out, err = RecStream(), RecStream()
    output = Output(False, True, out, err)
    mgr = ConnectionManager()
    flt = matcher.parse(ftext).simplify()
    Controller(output, mgr, flt, matcher.never)
    parse.into_sink(io.StringIO(''.join(l + chr(10) for l in lines)), output, mgr)
    ctx.check('no error output', err.items == [])
    recorded = [m for c in mgr.connections() for m in c.messages()]
    recorded.sort(key=lambda m: (m.timestamp,))
    ctx.check('every message, shown or not, is recorded', len(recorded) == len(lines))
    # arrival order = line order: rebuild from the per-connection lists
    per = {c.name(): list(c.messages()) for c in mgr.connections()}
    arrival = []
    for l in lines:
        nm = 'A' if '<1>' in l else 'B'
        if per.get(nm):
            arrival.append(per[nm].pop(0))
    want = []
    for m in arrival:
        # the oracle asks a freshly parsed matcher about every message (a matcher's verdict does not depend on what it was asked before: C05)
        if matcher.parse(ftext).simplify().matches(m):
            o2 = RecStream()
            m.show(Output(False, True, o2, RecStream()))
            want += o2.items
    shown = [x for x in out.items if re.match(r'^\s*-?\d+\.\d{4} ', x)]
    if shown != want:
        ctx.note('shown', shown); ctx.note('want', want)
    ctx.check('the message lines shown are exactly the matching ones, each once, in arrival order (identical consecutive messages are two lines)', shown == want)


def twin(ctx, case):
    step(ctx, case)
    ctx.check('reachability twin (must be violated)', False)


def obligations(tier):
    import itertools
    cases = []
    pres = [(), (0,), (0, 1), (1, 0, 0)] if tier == 'quick' else [(), (0,), (1,), (0, 1), (1, 0, 0), (0, 1, 1)]
    arrs = [(0,), (1,), (0, 1), (1, 1)] if tier == 'quick' else [(0,), (1,), (0, 1), (1, 0), (1, 1), (0, 0), (0, 1, 0)]
    for pre in pres:
        for sel in (None, 0, 1):
            for cmd in (None, 'filter', 'conn0', 'conn1', 'all', 'typo'):
                for arr in arrs:
                    cases.append((pre, sel, cmd, arr))
                for closed in (0, 1):
                    cases.append((pre, sel, cmd, (1 - closed,), closed))
                    cases.append((pre, sel, cmd, (1 - closed, 1 - closed), closed))
                    if cmd in (None, 'filter', 'typo'):
                        cases.append((pre, sel, cmd, (closed, 1 - closed), 10 + closed))
    bounds = 'records <= 3, 2 connections, selection none/A/B (selected connection possibly closed), optional command (filter / connection A / B / all), 1-%d arrivals; verdicts of all leaves symbolic' % max(len(a) for a in arrs)
    rcases = [(k, f, b) for k in ((2, 3) if tier == 'quick' else (2, 3, 4)) for f in ('*', 'wl_registry.global', '! wl_registry.global', 'B:', 'wl_a') for b in range(4)]
    rcases += [(k, f, 'reuse') for k in (0, 1) for f in ('wl_a', 'wl_b', '! wl_a', 'wl_a.poke, wl_registry', '3a', '@3b.poke', 'wl_*.poke(wl_b)')]
    return [Ob('live-view-rendered', 'symx', 'nothing stubbed: streams with identical consecutive lines, time steps 0 .. > 1 h, two connections, real matchers as filter: shown lines = matching messages, each once, in order',
               FUNCS + ['core.wl.message:Message.show', 'core.output.output:Output.show', 'backends.libwayland_debug_output.parse:into_sink'],
               '<= %d further lines from a pool of 4 x 5 time steps x 2 connections (exhaustive over the choices), 5 filters' % (3 if tier == 'quick' else 4), rendered, cases=rcases),
            Ob('live-view-step', 'symx', 'one live-view step from an arbitrary controller state', FUNCS, bounds, step, cases=cases,
               stubs=['abstract leaves', 'Message.show stubbed', 'matcher.parse stubbed inside the filter command']),
            Ob('commands-then-arrivals', 'symx', 'filter and breakpoint commands with real matcher texts interleaved (C12\'s real-parser obligation): after every command a message that arrives is shown iff the accumulated FILTER selects it, whatever was given to `breakpoint`',
               FUNCS + ['core.matcher:parse', 'core.matcher:join'], 'all sequences of <= %d commands from 2 commands x the C12 text pool, also after -f / -b matchers given at start-up' % (3 if tier == 'quick' else 4), __import__('harness.c12', fromlist=['real_sequences']).real_sequences,
               cases=__import__('harness.c12', fromlist=['seq_cases']).seq_cases(tier)),
            Ob('live-view-step-reachable', 'symx', 'reachability twin', FUNCS, bounds, twin, cases=[((0,), None, 'filter', (0, 1))], expect_cex=True)]
