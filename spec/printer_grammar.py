"""libwayland's WAYLAND_DEBUG printer (wl_closure_print) as a regular grammar, written from its
format strings -- NOT from wayland-debug's regexes.

old dialect  (libwayland <= 1.21):   [%10.3f] %s%s@%u.%s(ARGS)         " -> " for sent
  args: %u %d | %f (wl_fixed_to_double) | "%s" | nil | %s@%u | new id %s@%u / new id [unknown]@%u | array | fd %d
new dialect (libwayland >= 1.22, optionally with the conn_id patch shipped in resources/):
  [%7u.%03u] {%s} <%d> %s%s%s#%u.%s(ARGS)
  args: %u %d | %d.%08d / -%d.%08d | "%s" | nil | %s#%u | new id %s#%u / new id [unknown]#%u | array[%zu] | fd %d
The decimal mark of %f and of the old time stamp follows the locale: '.' or ','.

Two artefacts are provided:
  * grammar(...)   an AST for lib/sre2smt (optionally with capture groups at the DENOTED fields)
  * parse_line()   a deterministic reference decoder for lines of the grammar (the denotation)
"""
import re
from lib import sre2smt as R

# ---- lexical classes
DIG = R.rng('0', '9')
D19 = R.rng('1', '9')
UINT = R.alt(R.ch('0'), R.cat(D19, R.star(DIG)))          # %u
POSINT = R.cat(D19, R.star(DIG))                          # object ids are never 0
SINT = R.cat(R.opt(R.ch('-')), UINT)                      # %d  ("-0" is not printable, but harmless to include)
ID0 = R.union_cls(R.rng('a', 'z'), R.ch('_'))
IDC = R.union_cls(R.rng('a', 'z'), R.rng('0', '9'), R.ch('_'))
IDENT = R.cat(ID0, R.star(IDC))
STRCH = R.minus_cls(R.rng(' ', '~'), '"\\')               # printable ASCII without " and backslash
QUEUECH = R.union_cls(R.rng('a', 'z'), R.rng('A', 'Z'), R.rng('0', '9'), R.chars(' _-'))
DECMARK = R.chars('.,')


def _g(mark, name, x):
    return R.grp(name, x) if mark else x


def arg_productions(dialect, mark):
    """dict kind -> AST of one argument token; with mark=True the payload fields carry the group
    names the decoder is expected to capture, and kind-only groups carry an (open-only) marker"""
    sep = R.ch('@') if dialect == 'old' else R.ch('#')
    p = {}
    p['int'] = _g(mark, 'int', SINT)
    if dialect == 'old':
        p['fixed'] = _g(mark, 'float', R.cat(R.opt(R.ch('-')), R.plus(DIG), DECMARK, R.loop(DIG, 6, 6)))
        p['array'] = _g(mark, 'array', R.lit('array'))
    else:
        p['fixed'] = _g(mark, 'float', R.cat(R.opt(R.ch('-')), UINT, R.ch('.'), R.loop(DIG, 8, 8)))
        p['array'] = R.cat(_g(mark, 'array', R.lit('array')), R.ch('['), UINT, R.ch(']'))
    p['str'] = R.cat(R.ch('"'), _g(mark, 'str', R.star(STRCH)), R.ch('"'))
    p['nil'] = _g(mark, 'nil', R.lit('nil'))
    p['obj'] = R.cat(_g(mark, 'obj_type', IDENT), sep, _g(mark, 'obj_id', POSINT))
    p['new'] = R.cat(R.lit('new id '), _g(mark, 'new_type', IDENT), sep, _g(mark, 'new_id', POSINT))
    p['newu'] = R.cat(R.lit('new id [unknown]'), sep, _g(mark, 'new_id', POSINT))
    p['fd'] = R.cat(R.lit('fd '), _g(mark, 'fd', UINT))
    return p


KIND_ONLY_GROUPS = {'int', 'float', 'nil', 'array'}      # only their presence matters (open marker)
PAYLOAD_GROUPS = {'obj_type', 'obj_id', 'new_type', 'new_id', 'str', 'fd'}


def arg_any(dialect, mark=False):
    return R.alt(*arg_productions(dialect, mark).values())


def args_list(dialect):
    a = arg_any(dialect, False)
    return R.opt(R.cat(a, R.star(R.cat(R.lit(', '), a))))


def line(dialect, sent, queue=False, conn=False, mark=False, args=None):
    """one printer line"""
    sep = R.ch('@') if dialect == 'old' else R.ch('#')
    ts = R.cat(R.plus(DIG), DECMARK if dialect == 'old' else R.ch('.'), R.loop(DIG, 3, 3))
    parts = [R.ch('['), R.star(R.ch(' ')), _g(mark, 'timestamp', ts), R.ch(']')]
    if queue:
        assert dialect == 'new'
        parts += [R.lit(' {'), R.star(QUEUECH), R.ch('}')]
    if conn:
        assert dialect == 'new'
        parts += [R.lit(' <'), _g(mark, 'conn', UINT), R.ch('>')]
    parts.append(R.lit('  -> ') if sent else R.ch(' '))
    parts += [_g(mark, 'type', IDENT), sep, _g(mark, 'id', POSINT), R.ch('.'), _g(mark, 'message', IDENT), R.ch('('),
              _g(mark, 'args', args if args is not None else args_list(dialect)), R.ch(')')]
    return R.cat(*parts)


def variants():
    """(label, dialect, queue, conn)"""
    return [('old', 'old', False, False), ('new', 'new', False, False), ('new+queue', 'new', True, False),
            ('new+conn', 'new', False, True), ('new+queue+conn', 'new', True, True)]


# ---------------------------------------------------------------------------- reference decoder
_ident = r'[a-z_][a-z0-9_]*'
_uint = r'(?:0|[1-9][0-9]*)'
_pos = r'[1-9][0-9]*'
_LINE = re.compile(r'\[ *(?P<ts>[0-9]+[.,][0-9]{3})\](?: \{(?P<queue>[A-Za-z0-9 _-]*)\})?(?: <(?P<conn>' + _uint + r')>)?'
                   r'(?P<dir>  -> | )(?P<type>' + _ident + r')(?P<sep>[@#])(?P<id>' + _pos + r')\.(?P<name>' + _ident + r')\((?P<args>.*)\)', re.ASCII | re.DOTALL)
_ARG = re.compile(
    r'(?P<str>"(?:[ !#-\[\]-~]|[^\x00-\xa0])*")'         # printable text without " and backslash; text outside ASCII (UTF-8 titles) is printed as it is
    r'|(?P<newu>new id \[unknown\][@#](?P<newu_id>' + _pos + r'))'
    r'|(?P<new>new id (?P<new_type>' + _ident + r')[@#](?P<new_id>' + _pos + r'))'
    r'|(?P<fd>fd (?P<fd_v>' + _uint + r'))'
    r'|(?P<arrayn>array\[' + _uint + r'\])'
    r'|(?P<array>array)'
    r'|(?P<nil>nil)'
    r'|(?P<obj>(?P<obj_type>' + _ident + r')[@#](?P<obj_id>' + _pos + r'))'
    r'|(?P<fixed>-?[0-9]+[.,][0-9]{6}(?![0-9])|-?' + _uint + r'\.[0-9]{8}(?![0-9]))'
    r'|(?P<int>-?' + _uint + r')', re.ASCII)


def parse_line(text):
    """-> dict(sent, conn, type, id, name, args=[(kind, payload)...]) or None when the text is not a
    line of the printer grammar"""
    m = _LINE.fullmatch(text)
    if not m:
        return None
    args = []
    s = m.group('args')
    i = 0
    if s != '':
        while True:
            a = _ARG.match(s, i)
            if not a:
                return None
            k = a.lastgroup if a.lastgroup not in ('newu_id', 'new_type', 'new_id', 'fd_v', 'obj_type', 'obj_id') else None
            if a.group('str') is not None:
                args.append(('str', a.group('str')[1:-1]))
            elif a.group('newu') is not None:
                args.append(('new', (None, int(a.group('newu_id')))))
            elif a.group('new') is not None:
                args.append(('new', (a.group('new_type'), int(a.group('new_id')))))
            elif a.group('fd') is not None:
                args.append(('fd', int(a.group('fd_v'))))
            elif a.group('arrayn') is not None or a.group('array') is not None:
                args.append(('array', None))
            elif a.group('nil') is not None:
                args.append(('nil', None))
            elif a.group('obj') is not None:
                args.append(('obj', (a.group('obj_type'), int(a.group('obj_id')))))
            elif a.group('fixed') is not None:
                args.append(('fixed', float(a.group('fixed').replace(',', '.'))))
            else:
                args.append(('int', int(a.group('int'))))
            i = a.end()
            if i == len(s):
                break
            if s[i:i + 2] != ', ':
                return None
            i += 2
            if i == len(s):
                return None
    return {'sent': m.group('dir') != ' ', 'conn': m.group('conn'), 'type': m.group('type'), 'id': int(m.group('id')),
            'name': m.group('name'), 'args': args, 'ts': m.group('ts')}


def describe_real(conn_id, msg):
    """the same shape, read off the Message that wayland-debug's decoder returned"""
    from core import wl
    args = []
    for a in msg.args:
        if isinstance(a, wl.Arg.Int): args.append(('int', a.value))
        elif isinstance(a, wl.Arg.Float): args.append(('fixed', a.value))
        elif isinstance(a, wl.Arg.String): args.append(('str', a.value))
        elif isinstance(a, wl.Arg.Null): args.append(('nil', None if (a.type is None and a.name is None) else ('decoded with a name/interface no line can carry', a.name, a.type)))
        elif isinstance(a, wl.Arg.Object): args.append(('new' if a.is_new else 'obj', (a.obj.type, a.obj.id)))
        elif isinstance(a, wl.Arg.Array): args.append(('array', None))
        elif isinstance(a, wl.Arg.Fd): args.append(('fd', a.value))
        else: args.append(('unknown', getattr(a, 'string', None)))
    return {'sent': msg.sent, 'conn': conn_id, 'type': msg.obj.type, 'id': msg.obj.id, 'name': msg.name, 'args': args}


HISTORY = []      # every line this process has put through compare() (a decoder that keeps state is only caught with its history)


def relevant_history(text):
    """the earlier lines of this process a replay of `text` should decode first: the last two, and the last one sharing an argument kind keyword"""
    h = HISTORY[:-1] if HISTORY and HISTORY[-1] == text else HISTORY
    keep = []
    for kw in ('nil', 'array', 'fd ', 'new id', '"'):
        if kw in text:
            for l in reversed(h):
                if kw in l:
                    keep.append(l)
                    break
    for l in h[-2:]:
        keep.append(l)
    out = []
    for l in keep:
        if l not in out:
            out.append(l)
    return out


def compare(text):
    """-> (ok, explanation).  Decodes `text` with the real parse.message and with the reference."""
    HISTORY.append(text)
    del HISTORY[:-200]
    from backends.libwayland_debug_output import parse
    from core import wl
    exp = parse_line(text)
    saved = wl.Message.base_time
    try:
        try:
            conn_id, msg = parse.message(text)
            got = describe_real(conn_id, msg)
            # what the rest of the tool does next with a decoded message (Message.resolve): it labels the argument objects in place.
            # The next line decoded must not see any of it
            for k, a in enumerate(msg.args):
                a.name = 'label%d' % k
                if isinstance(a, wl.Arg.Null):
                    a.type = 'wl_earlier_%d' % k
        except RuntimeError as e:
            got = None
        except Exception as e:
            return False, 'parse.message(%r) raised %s: %s' % (text, type(e).__name__, e)
    finally:
        wl.Message.base_time = saved
    if exp is None:
        if got is None:
            return True, 'not a message for either'
        return True, 'outside the printer grammar (no claim): real decoder returned %r' % (got,)
    if got is None:
        return False, 'printer line %r is not decoded at all (parse.message raised RuntimeError)' % text
    exp2 = dict(exp)
    exp2.pop('ts')
    exp2['conn'] = exp['conn'] if exp['conn'] is not None else 'PARSED'
    if got != exp2:
        diffs = [k for k in exp2 if got.get(k) != exp2[k]]
        return False, 'line %r decoded wrongly in %s:\n  expected %r\n  got      %r' % (text, diffs, exp2, got)
    return True, 'decoded as denoted'
