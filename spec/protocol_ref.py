"""independent reading of the protocol XML files (the specification side of C07): which description of
an interface wins, and what it says about argument names, nil interfaces and enums"""
import os
import xml.etree.ElementTree as ET


def _lit(text):
    text = text.strip()
    if '<<' in text:
        a, b = text.split('<<')
        return int(a.strip(), 0) << int(b.strip(), 0)
    return int(text, 0)


def xml_files(repo):
    roots = ['/usr/share/wayland', '/usr/share/wayland-protocols', os.path.join(repo, 'resources', 'protocols')]
    out = []
    for r in roots:
        for d, _dirs, files in os.walk(r):
            for f in files:
                if f.endswith('.xml'):
                    out.append(os.path.join(d, f))
    return out


def read_all(repo):
    """-> {interface name: [candidate descriptions with the maximal version]} ; a description is
    {'version', 'file', 'messages': {name: [ {name,type,interface,enum} ]}, 'enums': {name: {'bitfield', 'entries': [(name, value)]}}}"""
    cands = {}
    for f in xml_files(repo):
        try:
            root = ET.parse(f).getroot()
        except ET.ParseError:
            continue
        if root.tag != 'protocol':
            continue
        for iface in root.findall('interface'):
            d = {'version': int(iface.get('version')), 'file': f, 'messages': {}, 'enums': {}}
            for node in iface:
                if node.tag in ('request', 'event'):
                    d['messages'][node.get('name')] = [
                        {'name': a.get('name'), 'type': a.get('type'), 'interface': a.get('interface'), 'enum': a.get('enum')}
                        for a in node if a.tag == 'arg']
                elif node.tag == 'enum':
                    d['enums'][node.get('name')] = {'bitfield': node.get('bitfield', 'false') == 'true',
                                                    'entries': [(e.get('name'), _lit(e.get('value'))) for e in node if e.tag == 'entry']}
            cands.setdefault(iface.get('name'), []).append(d)
    best = {}
    for name, ds in cands.items():
        mv = max(d['version'] for d in ds)
        best[name] = [d for d in ds if d['version'] == mv]
    return best


# enum tags the tool documents as added by hand for protocols that omit them (load_all), as (interface, message, arg) -> enum path
HAND_TAGS = {
    ('wl_data_offer', 'set_actions', 'dnd_actions'): 'wl_data_device_manager.dnd_action',
    ('wl_data_offer', 'set_actions', 'preferred_action'): 'wl_data_device_manager.dnd_action',
    ('wl_data_offer', 'source_actions', 'source_actions'): 'wl_data_device_manager.dnd_action',
    ('wl_data_offer', 'action', 'dnd_action'): 'wl_data_device_manager.dnd_action',
    ('wl_data_source', 'set_actions', 'dnd_actions'): 'wl_data_device_manager.dnd_action',
    ('wl_data_source', 'action', 'dnd_action'): 'wl_data_device_manager.dnd_action',
    ('wl_pointer', 'button', 'button'): 'fake_enums.button',
    ('zxdg_toplevel_v6', 'configure', 'states'): 'state',
    ('zxdg_toplevel_v6', 'resize', 'edges'): 'resize_edge',
    ('zxdg_positioner_v6', 'set_constraint_adjustment', 'constraint_adjustment'): 'constraint_adjustment',
    ('xdg_toplevel', 'configure', 'states'): 'state',
    ('xdg_toplevel', 'resize', 'edges'): 'resize_edge',
    ('xdg_positioner', 'set_constraint_adjustment', 'constraint_adjustment'): 'constraint_adjustment',
    ('zwlr_foreign_toplevel_handle_v1', 'state', 'state'): 'state',
    ('org_kde_kwin_server_decoration_manager', 'default_mode', 'mode'): 'mode',
    ('org_kde_kwin_server_decoration', 'request_mode', 'mode'): 'mode',
    ('org_kde_kwin_server_decoration', 'mode', 'mode'): 'mode',
}
FAKE_ENUMS = {'button': {'bitfield': False, 'entries': [('left', 0x110), ('right', 0x111), ('middle', 0x112)]}}  # linux/input-event-codes.h


def enum_for(best, iface, msg, arg):
    """the enum description that applies to an argument, or None"""
    path = arg['enum']
    if (iface, msg, arg['name']) in HAND_TAGS:
        path = HAND_TAGS[(iface, msg, arg['name'])]
    if not path:
        return None
    parts = path.split('.')
    e_iface, e_name = (parts[0], parts[1]) if len(parts) == 2 else (iface, parts[0])
    if e_iface == 'fake_enums':
        return FAKE_ENUMS.get(e_name)
    ds = best.get(e_iface)
    if not ds:
        return None
    return ds[0]['enums'].get(e_name)
