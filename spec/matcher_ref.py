"""reference meaning of the matcher language (matchers.md + the property text), over an AST from which the
expression TEXT is rendered -- so the denotation never comes from a second parser.

Three-valued: every denotation is a pair (must_match, must_not_match) of booleans that may be symbolic
(lib.symx.SBool); neither set = the documentation is silent (don't-care).

AST
  expr    = (positives, negatives)                 lists of patterns
  pattern = ('msg', conn, obj, name, args) | ('bare', conn, obj) | ('star',) | ('bang',)
  conn    = None | glob text
  obj     = None | ('type', glob) | ('id', n) | ('idgen', n, g) | ('list', [obj], [obj])
  name    = None | glob text | ('list', [glob], [glob])
  args    = None | ([item], [item])       item = (name glob or None, value or None) | ('list', [item], [item])
  value   = ('int', n) | ('float', x) | ('str', s) | ('label', glob) | ('nil',)
"""
import re
from core.letter_id_generator import number_to_letter_id

T, F = True, False


def _sb():
    from lib import symx
    return symx


def b_not(x):
    return (not x) if isinstance(x, bool) else ~x


def b_and(*xs):
    sym = []
    for x in xs:
        if isinstance(x, bool):
            if not x:
                return False
        else:
            sym.append(x)
    if not sym:
        return True
    r = sym[0]
    for s in sym[1:]:
        r = r & s
    return r


def b_or(*xs):
    sym = []
    for x in xs:
        if isinstance(x, bool):
            if x:
                return True
        else:
            sym.append(x)
    if not sym:
        return False
    r = sym[0]
    for s in sym[1:]:
        r = r | s
    return r


# three-valued connectives on (must, mustnot)
def t_const(b): return (b, not b)
DONTCARE = (False, False)
def t_of(x): return (x, b_not(x))
def t_not(a): return (a[1], a[0])
def t_and(*xs): return (b_and(*[x[0] for x in xs]), b_or(*[x[1] for x in xs]))
def t_or(*xs): return (b_or(*[x[0] for x in xs]), b_and(*[x[1] for x in xs]))


def glob(p, t):
    return re.fullmatch(re.escape(p).replace('\\*', '.*'), t) is not None


# ---------------------------------------------------------------------------------------- rendering
def r_obj(o):
    if o is None: return ''
    k = o[0]
    if k == 'type': return o[1]
    if k == 'id': return str(o[1])
    if k == 'idgen': return str(o[1]) + number_to_letter_id(o[2], False)
    return '[' + ', '.join(r_obj(x) for x in o[1]) + (' ! ' + ', '.join(r_obj(x) for x in o[2]) if o[2] else '') + ']'


def r_name(n):
    if n is None: return ''
    if isinstance(n, str): return n
    return '[' + ', '.join(n[1]) + (' ! ' + ', '.join(n[2]) if n[2] else '') + ']'


def r_val(v):
    if v is None: return ''
    k = v[0]
    if k == 'int': return str(v[1])
    if k == 'float': return repr(v[1])
    if k == 'str': return '"%s"' % v[1]
    if k == 'label': return v[1]
    return 'nil'


def r_item(it):
    if it[0] == 'list':
        return '[' + ', '.join(r_item(x) for x in it[1]) + (' ! ' + ', '.join(r_item(x) for x in it[2]) if it[2] else '') + ']'
    n, v = it
    return (n + '=' if n is not None else '') + r_val(v)


def r_args(ar):
    if ar is None: return ''
    pos, neg = ar
    return '(' + ', '.join(r_item(i) for i in pos) + (' ! ' + ', '.join(r_item(i) for i in neg) if neg else '') + ')'


def _br(text, on):
    """redundant brackets around one component"""
    return '[' + text + ']' if on and text != '' else text


def r_pat(p, br=()):
    if p[0] == 'star': return '*'
    if p[0] == 'bang': return '!'
    conn = (_br(p[1], 'conn' in br) + ': ') if p[1] is not None else ''
    if p[0] == 'bare': return conn + _br(r_obj(p[2]), 'obj' in br)
    _, _, o, n, ar = p
    args = ''
    if ar is not None:
        pos, neg = ar
        def item(i):
            if 'value' in br and i[0] != 'list' and i[1] is not None:
                return _br((i[0] + '=' if i[0] is not None else '') + _br(r_val(i[1]), True), 'item' in br)
            return _br(r_item(i), 'item' in br)
        args = '(' + ', '.join(item(i) for i in pos) + (' ! ' + ', '.join(item(i) for i in neg) if neg else '') + ')'
    return conn + _br(r_obj(o), 'obj' in br) + ('.' + _br(r_name(n), 'name' in br) if n is not None else '') + args


def r_expr(e, br=()):
    pos, neg = e
    return ', '.join(r_pat(p, br) for p in pos) + (' ! ' + ', '.join(r_pat(p, br) for p in neg) if neg else '')


# --------------------------------------------------------------------------------------- denotation
def d_obj(o, ob):
    """ob: object with .type (str/None) .id .generation (int/SInt/None)"""
    if o is None:
        return t_const(True)
    k = o[0]
    if k == 'type':
        return t_const(ob.type is not None and glob(o[1], ob.type))
    if k == 'id':
        return t_of(ob.id == o[1])
    if k == 'idgen':
        if ob.generation is None:
            return DONTCARE
        return t_of(b_and(ob.id == o[1], ob.generation == o[2]))
    return t_and(t_or(*[d_obj(x, ob) for x in o[1]]) if o[1] else t_const(True), *[t_not(d_obj(x, ob)) for x in o[2]])


def d_name(n, text):
    if n is None:
        return True
    if isinstance(n, str):
        return glob(n, text)
    return (any(glob(x, text) for x in n[1]) if n[1] else True) and not any(glob(x, text) for x in n[2])


def d_val(v, a):
    from core import wl
    if v is None:
        return t_const(True)
    k = v[0]
    if k == 'int':
        if isinstance(a, wl.Arg.Int): return t_of(a.value == v[1])
        if isinstance(a, wl.Arg.Float): return t_of(a.value == v[1])           # integral fixed values match, non-integral never
        if isinstance(a, (wl.Arg.Fd, wl.Arg.Object)): return DONTCARE
        return t_const(False)
    if k == 'float':
        if isinstance(a, wl.Arg.Float): return t_of(a.value == v[1])
        return t_const(False)                                                   # never an integer
    if k == 'str':
        return t_const(isinstance(a, wl.Arg.String) and a.value == v[1])
    if k == 'label':
        if isinstance(a, wl.Arg.Int): return t_const(any(glob(v[1], l) for l in getattr(a, 'labels', [])))
        if isinstance(a, wl.Arg.Object): return t_const(a.obj.type is not None and glob(v[1], a.obj.type))
        if isinstance(a, wl.Arg.Null): return t_const(a.type is not None and glob(v[1], a.type))
        return t_const(False)
    if k == 'nil':
        if isinstance(a, wl.Arg.Null): return t_const(True)
        if isinstance(a, wl.Arg.Object): return DONTCARE      # object with id 0
        return t_const(False)


def d_item(it, a):
    if it[0] == 'list':
        return t_and(t_or(*[d_item(x, a) for x in it[1]]) if it[1] else t_const(True), *[t_not(d_item(x, a)) for x in it[2]])
    n, v = it
    if n is not None:
        if a.name is None:
            return DONTCARE
        if not glob(n, a.name):
            return t_const(False)
    return d_val(v, a)


def d_args(ar, args):
    if ar is None:
        return t_const(True)
    pos, neg = ar
    parts = []
    for it in pos:
        parts.append(t_or(*[d_item(it, a) for a in args]) if args else t_const(False))
    for it in neg:
        parts.append(t_not(t_or(*[d_item(it, a) for a in args])) if args else t_const(True))
    return t_and(*parts) if parts else t_const(True)


def d_pat(p, m):
    from core import wl
    if p[0] == 'star': return t_const(True)
    if p[0] == 'bang': return t_const(False)
    cname = m.obj.connection.name() if m.obj.connection is not None else 'unknown'
    if p[1] is not None and not glob(p[1], cname):
        return t_const(False)
    o = p[2]
    news = [a.obj for a in m.args if isinstance(a, wl.Arg.Object) and a.is_new]
    if p[0] == 'bare':
        mentions = [d_obj(o, a.obj) for a in m.args if isinstance(a, wl.Arg.Object)]
        nils = [DONTCARE for a in m.args if isinstance(a, wl.Arg.Null)] if o is not None and o[0] != 'id' and o[0] != 'idgen' else []
        alts = [d_obj(o, m.obj)] + mentions + nils
        if m.destroyed_obj is not None:
            alts.append(d_obj(o, m.destroyed_obj))
        return t_or(*alts)
    _, _, o, n, ar = p
    alts = [t_and(d_obj(o, m.obj), t_const(d_name(n, m.name)), d_args(ar, m.args))]
    if n is not None and ar is None:
        if d_name(n, 'new'):
            alts.append(t_or(*[d_obj(o, x) for x in news]) if news else t_const(False))
        if d_name(n, 'destroyed'):
            alts.append(d_obj(o, m.destroyed_obj) if m.destroyed_obj is not None else t_const(False))
    return t_or(*alts)


def d_expr(e, m):
    pos, neg = e
    return t_and(t_or(*[d_pat(p, m) for p in pos]) if pos else t_const(True), *[t_not(d_pat(p, m)) for p in neg])


# --------------------------------------------------------------------------- what an expression mentions
def mentioned(e):
    """types, names, labels, strings, arg names, connection names an expression can distinguish"""
    acc = {'types': set(), 'names': set(), 'labels': set(), 'strs': set(), 'argnames': set(), 'conns': set(), 'kinds': set(), 'ids': set(), 'ints': set(), 'floats': set()}

    def obj(o):
        if o is None: return
        if o[0] == 'type': acc['types'].add(o[1])
        elif o[0] in ('id', 'idgen'): acc['ids'].add(o[1])
        else:
            for x in o[1] + o[2]: obj(x)

    def item(it):
        if it[0] == 'list':
            for x in it[1] + it[2]: item(x)
            return
        n, v = it
        if n is not None: acc['argnames'].add(n)
        if v is None: return
        acc['kinds'].add(v[0])
        if v[0] == 'label': acc['labels'].add(v[1])
        if v[0] == 'str': acc['strs'].add(v[1])
        if v[0] == 'int': acc['ints'].add(v[1])
        if v[0] == 'float': acc['floats'].add(v[1])
    for p in e[0] + e[1]:
        if p[0] in ('star', 'bang'): continue
        if p[1] is not None: acc['conns'].add(p[1])
        obj(p[2])
        if p[0] == 'msg':
            n = p[3]
            if isinstance(n, str): acc['names'].add(n)
            elif n is not None:
                acc['names'].update(n[1] + n[2])
            if p[4] is not None:
                for it in p[4][0] + p[4][1]: item(it)
    return acc
