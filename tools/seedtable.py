#!/usr/bin/env python3
"""markdown table of the seeded changes: what each is, and which obligations of which check report it (from seeded/*/check_output.txt)"""
import json, glob, os, re
V = os.path.dirname(os.path.dirname(os.path.abspath(__file__)))
rows = []
for d in sorted(glob.glob(V + '/seeded/*/meta.json')):
    m = json.load(open(d))
    name = m['name']
    notes = m.get('what_it_needs_to_manifest', '')
    first = re.sub(r'\s+', ' ', notes.replace('|', '/')).strip()
    first = re.sub(r'^(#+\s*\S*\s*)?(\*\*)?(Change|What the change is|seed\d)(\*\*)?\s*[:\-—]*\s*', '', first, flags=re.I)
    first = first[:210] + ('…' if len(first) > 210 else '')
    out = open(os.path.dirname(d) + '/check_output.txt').read() if os.path.exists(os.path.dirname(d) + '/check_output.txt') else ''
    obs = []
    for o in re.findall(r'^  obligation: (.*)$', out, re.M):
        if o not in obs:
            obs.append(o)
    if not obs:
        for o in re.findall(r'^  \[C\d+\] (\S+) case', out, re.M):
            if o not in obs and not o.endswith('reachable'):
                obs.append(o)
    rc = m['check']['exit']
    verdict = 'VIOLATION' if rc == '1' else ('harness error (exit 2)' if rc == '2' else 'missed')
    rows.append('| %s | %s | %s | %s |' % (name, first, verdict, ', '.join(obs[:4])))
print('| seed | change | check verdict | reporting obligations |')
print('|---|---|---|---|')
print('\n'.join(rows))
print()
print('%d seeds, %d reported as VIOLATION' % (len(rows), sum(1 for r in rows if '| VIOLATION |' in r)))
