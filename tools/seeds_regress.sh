#!/bin/bash
# re-run every filed seeded change against the current checks, each in its own scratch worktree (never /repo), JOBS at a time (default 3):
# writes seeded/REGRESSION.md; exit 1 if a seed is no longer caught.   usage: tools/seeds_regress.sh [seed-name-glob]
cd "$(dirname "$0")/.."
export V=$PWD
glob=${1:-*}
one() {
  d=$1; name=$(basename $d); pid=${name%%-*}
  [ -f $V/$d/patch.diff ] || exit 0
  wt=$(mktemp -d /tmp/seedregress.XXXX)
  git -C /repo worktree add --detach "$wt/repo" HEAD >/dev/null 2>&1
  if ! git -C "$wt/repo" apply --check $V/$d/patch.diff 2>/dev/null; then rc="patch does not apply"; v=0; f=""; else
    git -C "$wt/repo" apply $V/$d/patch.diff
    (cd $V && VERIF_REPO="$wt/repo" VERIF_OUT_DIR="$wt/out" VERIF_JOBS=${VERIF_JOBS:-8} timeout 3000 ./check $pid > $V/$d/check_output.txt 2>&1); rc=$?
    v=$(grep -c "^VIOLATION" $V/$d/check_output.txt); f=$(grep -m1 "failed check" $V/$d/check_output.txt | sed 's/^ *failed check: //' | cut -c1-120)
  fi
  git -C /repo worktree remove --force "$wt/repo"; rm -rf "$wt"
  python3 - "$V/$d/meta.json" "$rc" "$v" "$f" <<'PY'
import json, sys
p, rc, v, f = sys.argv[1:]
m = json.load(open(p)); m['check'] = {'exit': rc, 'violation_lines': int(v), 'first_failed_check': f}; m['detected'] = rc == '1'
json.dump(m, open(p, 'w'), indent=1)
PY
  echo "$name rc=$rc v=$v"
}
export -f one
ls -d seeded/$glob/ | xargs -P ${JOBS:-3} -I{} bash -c 'one {}'
python3 - <<'PY'
import json, glob, os, sys
rows = []
bad = 0
for p in sorted(glob.glob('seeded/*/meta.json')):
    m = json.load(open(p)); c = m.get('check', {})
    rows.append('| %s | %s | %s | %s | %s |' % (m.get('name'), m.get('property'), c.get('exit'), c.get('violation_lines'), str(c.get('first_failed_check', '')).replace('|', '\\|')[:120]))
    bad |= (str(c.get('exit')) != '1')
open('seeded/REGRESSION.md', 'w').write('| seed | property | check exit | violations | first failed check |\n|---|---|---|---|---|\n' + '\n'.join(rows) + '\n')
sys.exit(1 if bad else 0)
PY
