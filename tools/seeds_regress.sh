#!/bin/bash
# re-run every filed seeded change against the current checks in a scratch worktree (never /repo): writes seeded/REGRESSION.md
# exit 1 if a seed is no longer caught
cd "$(dirname "$0")/.."
V=$PWD
out=seeded/REGRESSION.md
wt=$(mktemp -d /tmp/seedregress.XXXX)
git -C /repo worktree add --detach "$wt/repo" HEAD >/dev/null 2>&1
echo "| seed | property | check exit | violations | first failed check |" > $out
echo "|---|---|---|---|---|" >> $out
bad=0
for d in seeded/*/; do
  name=$(basename $d); pid=${name%%-*}
  [ -f $d/patch.diff ] || continue
  if ! git -C "$wt/repo" apply --check $V/$d/patch.diff 2>/dev/null; then echo "| $name | $pid | patch does not apply | | |" >> $out; bad=1; continue; fi
  git -C "$wt/repo" apply $V/$d/patch.diff
  VERIF_REPO="$wt/repo" VERIF_OUT_DIR="$wt/out" timeout 3000 ./check $pid > $d/check_output.txt 2>&1; rc=$?
  git -C "$wt/repo" checkout -q -- .
  v=$(grep -c "^VIOLATION" $d/check_output.txt); f=$(grep -m1 "failed check" $d/check_output.txt | sed 's/^ *failed check: //' | cut -c1-120)
  echo "| $name | $pid | $rc | $v | $f |" >> $out
  python3 - "$d/meta.json" "$rc" "$v" "$f" <<'PY'
import json, sys
p, rc, v, f = sys.argv[1:]
m = json.load(open(p)); m['check'] = {'exit': rc, 'violation_lines': int(v), 'first_failed_check': f}; m['detected'] = rc == '1'
json.dump(m, open(p, 'w'), indent=1)
PY
  [ "$rc" = "1" ] || bad=1
  echo "$name rc=$rc v=$v"
done
git -C /repo worktree remove --force "$wt/repo"; rm -rf "$wt"
exit $bad
