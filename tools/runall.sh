#!/bin/bash
# tools/runall.sh [quick|thorough]  -- every check once, one line each
tier=${1:-quick}
cd "$(dirname "$0")/.."
for p in C01 C02 C03 C04 C05 C06 C07 C08 C09 C10 C11 C12 C13 C14 C15 C16 C17 C18 C19; do
  s=$(date +%s)
  line=$(./check $p --tier $tier 2>&1 | tail -1)
  echo "$line  [rc=${PIPESTATUS[0]} $(( $(date +%s) - s ))s]"
done
