#!/bin/bash
# tools/runall.sh [quick|thorough] [ID ...]  -- every (or the named) check once, one line each
tier=${1:-quick}; shift
ids=${@:-C01 C02 C03 C04 C05 C06 C07 C08 C09 C10 C11 C12 C13 C14 C15 C16 C17 C18 C19}
cd "$(dirname "$0")/.."
for p in $ids; do
  s=$(date +%s)
  line=$(./check $p --tier $tier 2>&1 | tail -1)
  echo "$line  [$(( $(date +%s) - s ))s]"
done
