#!/bin/bash
# tools/tryseed.sh <seed-name> [check args...]: run the seed's property check (with extra args, e.g. --only X) against a patched scratch worktree; prints verdict lines
name=$1; shift; pid=${name%%-*}
V=$(cd "$(dirname "$0")/.." && pwd)
wt=$(mktemp -d /tmp/try.XXXX)
git -C /repo worktree add --detach $wt/repo HEAD >/dev/null 2>&1
if git -C $wt/repo apply $V/seeded/$name/patch.diff; then
  (cd $V && VERIF_REPO=$wt/repo VERIF_OUT_DIR=$wt/out VERIF_JOBS=${VERIF_JOBS:-8} ./check $pid "$@" 2>&1 | grep -v "^  |" | grep "VIOLATION\|failed check\|HARNESS\|INCONCL\|^$pid " | cut -c1-300 | head -${LINES_MAX:-12})
else echo "patch does not apply"; fi
git -C /repo worktree remove --force $wt/repo; rm -rf $wt
