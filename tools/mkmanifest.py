#!/usr/bin/env python3
"""regenerates MANIFEST.json from the table below (kept in one place so it stays valid)"""
import json, os
V = os.path.dirname(os.path.dirname(os.path.abspath(__file__)))
props = [json.loads(l) for l in open(os.path.join(V, 'properties.jsonl'))]
CLAIMED = {
 # id: (category, technique, level text, level note, design_ref)
 'C02': ('model_checking', 'bounded symbolic execution of the real object-table code (symx proxies + z3), one inductive step from an arbitrary valid state vs a reference model',
         'For every path of one ConnectionImpl.message step from an arbitrary valid table (ids fully symbolic in [2,2^32), bounded incarnation/argument counts) z3 proves that every mention resolves to the model\'s incarnation and the table changes exactly as the model says; induction over the checked invariant extends this to histories of any length. Witnesses are replayed on the real code before being reported.',
         'Trusted: z3, the proxy executor lib/symx.py, the association-list replacement of the id dict, the reference model in harness/objtable.py. Bounds: see evidence (table ids, incarnations, arguments). Ill-formed histories are outside.', 'DESIGN.md §4 C02'),
 'C03': ('model_checking', 'bounded symbolic execution of the real object-table code (symx proxies + z3), one inductive step, lifetime fields',
         'Same step as C02 with the lifetime assertions: alive flags, creation/destruction times and lifespan arithmetic exact over symbolic integer times, destroyed_obj only on wl_display.delete_id, implicit destruction of re-used server ids at exactly id >= 0xff000000, no resurrection.',
         'Trusted: as C02. Times are integers (float rounding of the displayed lifespan is not part of this check).', 'DESIGN.md §4 C03'),
}
NOT_YET = 'check not built yet in this round (see DESIGN.md §6 order of construction)'
NA = {}
checks = []
for p in props:
    pid = p['id']
    if pid in CLAIMED:
        cat, tech, text, note, ref = CLAIMED[pid]
        checks.append({
            'property_id': pid,
            'quick_cmd': './check %s --tier quick' % pid,
            'thorough_cmd': './check %s --tier thorough' % pid,
            'evidence_file': 'evidence/%s.json' % pid,
            'replay_cmd_template': './check --replay {path}',
            'engine': 'symx+z3',
            'level_claimed': {'category': cat, 'text': text, 'design_ref': ref},
            'level_note': note,
            'technique': tech,
        })
manifest = {
 'version': 1,
 'setup_cmd': './setup.sh',
 'hooks': {'guard': 'WMWW_WAYLAND_DEBUG_VERIF', 'enable': 'no source hooks are needed: every stub is a monkey-patch applied by the harness in its own process; the runner sets WMWW_WAYLAND_DEBUG_VERIF=1 for uniformity',
           'baseline_off_cmd': 'cd /repo && /venv/bin/python -m pytest -ra -q -p no:cacheprovider --timeout=900 --continue-on-collection-errors',
           'source_commits': [], 'add_only': True},
 'engines': [
  {'name': 'symx', 'path': 'lib/symx.py', 'serves_properties': sorted(CLAIMED), 'kind_free_text': 'proxy symbolic executor over the real Python functions, z3 decides every branch and every final assertion'},
 ],
 'checks': checks,
 'not_applicable': [{'property_id': p['id'], 'reason': NA.get(p['id'], NOT_YET)} for p in props if p['id'] not in CLAIMED],
 'notes': 'All checks regenerate their encodings from /repo\'s working tree at run time (functions are imported, regexes are read from the compiled pattern objects). known_findings.json lists repaired defects (fixed:) and recorded findings.',
}
json.dump(manifest, open(os.path.join(V, 'MANIFEST.json'), 'w'), indent=1)
print('MANIFEST.json: %d checks, %d not_applicable' % (len(checks), len(manifest['not_applicable'])))
