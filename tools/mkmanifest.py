#!/usr/bin/env python3
"""regenerates MANIFEST.json from the table below (kept in one place so it stays valid)"""
import json, os
V = os.path.dirname(os.path.dirname(os.path.abspath(__file__)))
props = [json.loads(l) for l in open(os.path.join(V, 'properties.jsonl'))]
import sys, importlib
sys.path[:0] = [V, '/repo']
CLAIMED = {}
for p_ in props:
    try:
        m = importlib.import_module('harness.' + p_['id'].lower())
    except ModuleNotFoundError:
        continue
    d = m.MANIFEST
    CLAIMED[p_['id']] = (d['category'], d['technique'], d['text'], d['note'], d.get('ref', 'DESIGN.md §4 ' + p_['id']), d.get('engine', 'symx+z3'))
NOT_YET = 'check not built yet in this round (see DESIGN.md §6 order of construction)'
NA = {}
checks = []
for p in props:
    pid = p['id']
    if pid in CLAIMED:
        cat, tech, text, note, ref, engine = CLAIMED[pid]
        checks.append({
            'property_id': pid,
            'quick_cmd': './check %s --tier quick' % pid,
            'thorough_cmd': './check %s --tier thorough' % pid,
            'evidence_file': 'evidence/%s.json' % pid,
            'replay_cmd_template': './check --replay {path}',
            'engine': engine,
            'level_claimed': {'category': cat, 'text': text, 'design_ref': ref},
            'level_note': note,
            'technique': tech,
        })
manifest = {
 'version': 1,
 'setup_cmd': './setup.sh',
 'hooks': {'guard': 'WMWW_WAYLAND_DEBUG_VERIF', 'enable': 'no source hooks are needed: every stub is a monkey-patch applied by the harness in its own process; the runner sets WMWW_WAYLAND_DEBUG_VERIF=1 for uniformity',
           'baseline_off_cmd': 'cd /repo && /venv/bin/python -m pytest -ra -q -p no:cacheprovider --timeout=900 --continue-on-collection-errors',
           'source_commits': [], 'add_only': True},
 'engines': [
  {'name': 'symx', 'path': 'lib/symx.py', 'serves_properties': sorted(k for k, v in CLAIMED.items() if 'symx' in v[5]), 'kind_free_text': 'proxy symbolic executor over the real Python functions, z3 decides every branch and every final assertion'},
  {'name': 'sre2smt', 'path': 'lib/sre2smt.py', 'serves_properties': sorted(k for k, v in CLAIMED.items() if 'sre2smt' in v[5]), 'kind_free_text': 'live compiled Python regexes -> z3 regular expressions with capture-group markers; language emptiness/inclusion queries'},
  {'name': 'crosshair', 'path': 'lib/ch.py', 'serves_properties': sorted(k for k, v in CLAIMED.items() if 'crosshair' in v[5]), 'kind_free_text': 'CrossHair (z3-backed symbolic execution of Python) on harness functions with PEP-316 contracts'},
 ],
 'checks': checks,
 'not_applicable': [{'property_id': p['id'], 'reason': NA.get(p['id'], NOT_YET)} for p in props if p['id'] not in CLAIMED],
 'notes': 'All checks regenerate their encodings from /repo\'s working tree at run time (functions are imported, regexes are read from the compiled pattern objects). known_findings.json lists repaired defects (fixed:) and recorded findings.',
}
json.dump(manifest, open(os.path.join(V, 'MANIFEST.json'), 'w'), indent=1)
print('MANIFEST.json: %d checks, %d not_applicable' % (len(checks), len(manifest['not_applicable'])))
