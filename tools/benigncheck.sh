#!/bin/bash
# usage: tools/benigncheck.sh <patch.diff> <name> [ID ...]
# applies a BEHAVIOUR-PRESERVING change to a scratch worktree of /repo (never /repo itself) and runs the named (default: all) quick checks against it:
# every check must exit 0. Writes benign/<name>/{patch.diff,result.txt}; exit 1 if a check raised an alarm (exit != 0) on the benign change.
set -u
patch=$(readlink -f "$1"); name=$2; shift 2
ids=${@:-C01 C02 C03 C04 C05 C06 C07 C08 C09 C10 C11 C12 C13 C14 C15 C16 C17 C18 C19}
V=$(cd "$(dirname "$0")/.." && pwd)
out=$V/benign/$name; mkdir -p "$out"; cp "$patch" "$out/patch.diff"
[ -f "$(dirname "$patch")/notes.md" ] && cp "$(dirname "$patch")/notes.md" "$out/notes.md"
wt=$(mktemp -d /tmp/benign.XXXX)
git -C /repo worktree add --detach "$wt/repo" HEAD >/dev/null 2>&1
if ! git -C "$wt/repo" apply "$patch" 2>"$out/apply.err"; then echo "$name: patch does not apply"; git -C /repo worktree remove --force "$wt/repo"; rm -rf "$wt"; exit 3; fi
rm -f "$out/apply.err"
suite=$(cd "$wt/repo" && /venv/bin/python -m pytest -q -p no:cacheprovider --timeout=900 2>&1 | tail -1)
echo "suite: $suite" > "$out/result.txt"
bad=0
for p in $ids; do
  s=$(date +%s)
  (cd $V && VERIF_REPO="$wt/repo" VERIF_OUT_DIR="$wt/out" VERIF_JOBS=${VERIF_JOBS:-8} timeout 3000 ./check $p --tier quick > "$wt/$p.log" 2>&1); rc=$?
  echo "$p rc=$rc [$(( $(date +%s) - s ))s] $(tail -1 "$wt/$p.log")" >> "$out/result.txt"
  if [ $rc -ne 0 ]; then bad=1; cp "$wt/$p.log" "$out/$p.log"; fi
done
git -C /repo worktree remove --force "$wt/repo"; rm -rf "$wt"
echo "$name: $( [ $bad = 0 ] && echo all quiet || echo ALARM ) | $suite"
exit $bad
