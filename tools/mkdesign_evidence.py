#!/usr/bin/env python3
"""refresh the generated `what the last run covered` table inside DESIGN.md from evidence/*.json"""
import json, glob, os, re
V = os.path.dirname(os.path.dirname(os.path.abspath(__file__)))
rows = ['| id | tier | obligations (engine: paths/queries) | discharged | wall s |', '|---|---|---|---|---|']
for f in sorted(glob.glob(V + '/evidence/C*.json')):
    e = json.load(open(f))
    c = e['coverage']
    obs = '; '.join('%s (%s: %d/%d)' % (o['name'], o['engine'], o.get('paths', 0), o.get('queries', 0)) for o in c['obligations_detail'] if not o.get('reachability_twin'))
    rows.append('| %s | %s | %s | %d/%d | %s |' % (e['property_id'], e['tier'], obs, c['discharged'], c['obligations'], e['wall_s']))
table = '\n'.join(rows) + '\n'
p = V + '/DESIGN.md'
s = open(p).read()
if '<!-- EVIDENCE:BEGIN -->' not in s:
    s = s.replace('Notes on oracles worth stating:', 'What the last committed run of each check covered (generated from `evidence/*.json` by `tools/mkdesign_evidence.py`; twins omitted):\n\n<!-- EVIDENCE:BEGIN -->\n<!-- EVIDENCE:END -->\n\nNotes on oracles worth stating:')
s = re.sub(r'<!-- EVIDENCE:BEGIN -->.*<!-- EVIDENCE:END -->', lambda m: '<!-- EVIDENCE:BEGIN -->\n' + table + '<!-- EVIDENCE:END -->', s, flags=re.S)
open(p, 'w').write(s)
print('DESIGN.md evidence table refreshed')
