#!/bin/bash
# usage: tools/seedcheck.sh <PROPERTY> <seed dir in a scratch worktree, e.g. /tmp/wt/C01/_seed1> <name>
# verifies a seeded change independently (suite still passes, demo fails with / passes without) and runs the property's check
# against the PATCHED SCRATCH WORKTREE (VERIF_REPO), never touching /repo; files it under /verif/seeded/<name>/
set -u
pid=$1; sd=$2; name=$3
wt=$(dirname "$sd")
V=/verif
out=$V/seeded/$name
mkdir -p "$out"
cp "$sd/patch.diff" "$out/patch.diff"; cp "$sd"/*.py "$out/" 2>/dev/null; cp "$sd/notes.md" "$out/notes.md" 2>/dev/null
cd "$wt" && git checkout -q -- .
d0=$(cd "$wt" && /venv/bin/python "$sd/demo.py" >/dev/null 2>&1; echo $?)
if ! git -C "$wt" apply --check "$sd/patch.diff" 2>/dev/null; then echo "PATCH DOES NOT APPLY in worktree"; fi
git -C "$wt" apply "$sd/patch.diff"
suite=$(cd "$wt" && /venv/bin/python -m pytest -q -p no:cacheprovider --timeout=900 2>&1 | tail -1)
d1=$(cd "$wt" && /venv/bin/python "$sd/demo.py" >/dev/null 2>&1; echo $?)
tmp=$(mktemp -d)
(cd $V && VERIF_REPO="$wt" VERIF_OUT_DIR="$tmp" timeout 3000 ./check $pid > "$out/check_output.txt" 2>&1; echo $? > "$out/check_rc.txt")
rm -rf "$tmp"
git -C "$wt" checkout -q -- .
applies=$(git -C /repo apply --check "$out/patch.diff" 2>/dev/null && echo yes || echo no)
rc=$(cat "$out/check_rc.txt")
viol=$(grep -c "^VIOLATION" "$out/check_output.txt" 2>/dev/null)
first=$(grep -m1 "failed check" "$out/check_output.txt" 2>/dev/null)
python3 - "$pid" "$name" "$d0" "$d1" "$suite" "$rc" "$viol" "$first" "$out" "$applies" <<'PY'
import sys, json, os
pid, name, d0, d1, suite, rc, viol, first, out, applies = sys.argv[1:]
notes = open(out + '/notes.md').read() if os.path.exists(out + '/notes.md') else ''
meta = {'property': pid, 'name': name, 'what_it_needs_to_manifest': notes.strip()[:1500],
        'verified': {'demo_exit_unpatched': int(d0), 'demo_exit_patched': int(d1), 'suite_with_patch': suite.strip(), 'patch_applies_to_repo_head': applies,
                     'commands': ['git apply patch.diff (scratch worktree)', '/venv/bin/python -m pytest -q -p no:cacheprovider --timeout=900', '/venv/bin/python demo.py',
                                  'VERIF_REPO=<patched scratch worktree> ./check %s' % pid]},
        'check': {'exit': rc, 'violation_lines': int(viol or 0), 'first_failed_check': first.strip()},
        'detected': rc == '1'}
json.dump(meta, open(out + '/meta.json', 'w'), indent=1)
print('%s %s: demo unpatched=%s patched=%s | suite: %s | check rc=%s violations=%s | %s' % (pid, name, d0, d1, suite.strip(), rc, viol, first.strip()[:140]))
PY
