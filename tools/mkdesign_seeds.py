#!/usr/bin/env python3
"""refresh the generated seed table inside DESIGN.md"""
import subprocess, os, re
V = os.path.dirname(os.path.dirname(os.path.abspath(__file__)))
table = subprocess.run(['python3', V + '/tools/seedtable.py'], capture_output=True, text=True).stdout
p = V + '/DESIGN.md'
s = open(p).read()
s = re.sub(r'<!-- SEEDTABLE:BEGIN -->.*<!-- SEEDTABLE:END -->', lambda m: '<!-- SEEDTABLE:BEGIN -->\n' + table + '<!-- SEEDTABLE:END -->', s, flags=re.S)
open(p, 'w').write(s)
print('DESIGN.md seed table refreshed')
