"""symx -- a small proxy executor: runs REAL Python functions on proxy values whose operators build
z3 terms.  Branches on symbolic conditions are owned by an incremental z3 solver; finite structural
choices are forked with choose().  Every path is re-executed from the start (depth first,
deterministic).  At the end of a path every recorded check must be VALID under the path condition
(solver: PC and not(check) is unsat) -- i.e. it holds for every value of the symbolic scalars that
follows this path, not for a sample.

The same harness function can be re-run with a ConcreteCtx (plain ints, recorded choices): that is
the replay of a solver witness against the real code, with no solver and no proxies involved.

z3 is imported lazily so that replays run under an interpreter without z3.
"""
import time
import os

_z3 = None


def z3():
    global _z3
    if _z3 is None:
        import z3 as _m
        _z3 = _m
    return _z3


class Unsupported(BaseException):
    """an operation the proxies cannot model; BaseException so that `except Exception` in the code
    under test cannot swallow it and silently change the path"""


class Abort(BaseException):
    """path leaves the assumptions of the obligation (not an error)"""


class Inconclusive(BaseException):
    """solver said unknown"""


class PathTimeout(BaseException):
    """one path of the code under test did not terminate within the watchdog limit"""


_cur = None


def cur():
    return _cur


# ------------------------------------------------------------------------------------------------
# proxies

def _lift(x):
    """python value -> z3 arithmetic/bitvector term or None"""
    if isinstance(x, SInt):
        return x.e
    if isinstance(x, bool):
        return int(x)
    if isinstance(x, int):
        return x
    return None


class SBool:
    __slots__ = ('e',)

    def __init__(self, e):
        self.e = e

    def __bool__(self):
        return _cur.decide(self.e)

    # non-forking connectives for harness use
    def __and__(self, o):
        return SBool(z3().And(self.e, _b(o)))
    __rand__ = __and__

    def __or__(self, o):
        return SBool(z3().Or(self.e, _b(o)))
    __ror__ = __or__

    def __invert__(self):
        return SBool(z3().Not(self.e))

    # a flag computed by the code under test from symbolic values may be stored and compared later (`msg.sent == sent`)
    def __eq__(self, o):
        if isinstance(o, (bool, SBool)):
            return SBool(self.e == _b(o))
        return NotImplemented

    def __ne__(self, o):
        if isinstance(o, (bool, SBool)):
            return SBool(self.e != _b(o))
        return NotImplemented

    def __hash__(self):
        raise Unsupported('hash of symbolic bool')


def _b(x):
    if isinstance(x, SBool):
        return x.e
    if isinstance(x, bool):
        return z3().BoolVal(x)
    if z3().is_bool(x):
        return x
    raise Unsupported('not a boolean: %r' % (x,))


class SInt:
    """symbolic integer over z3 Int (mathematical, like Python's int) or BitVec (when the code under
    test uses & | ^ << >>)."""
    __slots__ = ('e', 'name', 'small')

    def __init__(self, e, name=None, small=None):
        self.e = e
        self.name = name
        self.small = small    # (lo, hi): small finite domain, may be concretised by forking (list index)

    # -- helpers
    def _isbv(self):
        return z3().is_bv(self.e)

    def _coerce(self, o):
        l = _lift(o)
        if l is None:
            return None
        if isinstance(l, int) and self._isbv():
            return z3().BitVecVal(l, self.e.size())
        if isinstance(l, int):
            return z3().IntVal(l)
        return l

    def _cmp(self, o, f):
        l = self._coerce(o)
        if l is None:
            if isinstance(o, float) and not self._isbv():
                return _cmp_float(self, o, f)
            return NotImplemented
        return SBool(f(self.e, l))

    # -- comparisons
    def __eq__(self, o):
        l = self._coerce(o)
        if l is None:
            if isinstance(o, float) and not self._isbv():
                if o != o or o in (float('inf'), float('-inf')):
                    return False
                return SBool(z3().ToReal(self.e) == _real_of_float(o))
            if isinstance(o, SFix):
                return o.__eq__(self)
            return False
        if not isinstance(l, int) and l.get_id() < self.e.get_id():
            return SBool(l == self.e)
        return SBool(self.e == l)

    def __ne__(self, o):
        r = self.__eq__(o)
        if isinstance(r, bool):
            return not r
        return SBool(z3().Not(r.e))

    def __lt__(self, o):
        if self._isbv():
            return self._cmp(o, lambda a, b: z3().ULT(a, b))
        return self._cmp(o, lambda a, b: a < b)

    def __le__(self, o):
        if self._isbv():
            return self._cmp(o, lambda a, b: z3().ULE(a, b))
        return self._cmp(o, lambda a, b: a <= b)

    def __gt__(self, o):
        if self._isbv():
            return self._cmp(o, lambda a, b: z3().UGT(a, b))
        return self._cmp(o, lambda a, b: a > b)

    def __ge__(self, o):
        if self._isbv():
            return self._cmp(o, lambda a, b: z3().UGE(a, b))
        return self._cmp(o, lambda a, b: a >= b)

    def __hash__(self):
        # a symbolic integer used as a dict key / set member: concretised by forking over solver-chosen values (bounded; see SymCtx.concretise)
        if _cur is None:
            raise Unsupported('hash of symbolic int (dict key / set member)')
        return hash(_cur.concretise(self.e))

    def __bool__(self):
        return _cur.decide(self.e != 0)

    def __index__(self):
        if self.small is None:
            # an index / slice bound computed from symbolic values (`len(xs) - cap`): concretised by forking over the small magnitudes a position in
            # one of the harnesses' short lists can have, in a fixed order (deterministic across the re-executions of a path)
            for k in (0, 1, -1, 2, -2, 3, -3, 4, -4, 5, -5, 6, -6, 7, -7, 8, -8, 9, -9, 10, -10, 11, -11, 12, -12):
                if _cur.decide(self.e == k):
                    return k
            raise Unsupported('symbolic int used as index (no value within -12..12)')
        lo, hi = self.small
        for k in range(lo, hi - 1):
            if _cur.decide(self.e == k):
                return k
        return hi - 1

    # -- arithmetic
    def _arith(self, o, f):
        l = self._coerce(o)
        if l is None:
            return NotImplemented
        return SInt(f(self.e, l))

    def __add__(self, o): return self._arith(o, lambda a, b: a + b)
    def __radd__(self, o): return self._arith(o, lambda a, b: b + a)
    def __sub__(self, o): return self._arith(o, lambda a, b: a - b)
    def __rsub__(self, o): return self._arith(o, lambda a, b: b - a)
    def __mul__(self, o): return self._arith(o, lambda a, b: a * b)
    def __rmul__(self, o): return self._arith(o, lambda a, b: b * a)
    def __neg__(self): return SInt(-self.e)
    def __pos__(self): return self

    def __floordiv__(self, o):
        # python floor division; z3 Int div is euclidean: equal for positive divisors
        l = self._coerce(o)
        if l is None or not isinstance(o, int) or o <= 0:
            raise Unsupported('floordiv by non-constant / non-positive')
        return SInt(self.e / l)

    def __mod__(self, o):
        l = self._coerce(o)
        if l is None or not isinstance(o, int) or o <= 0:
            raise Unsupported('mod by non-constant / non-positive')
        return SInt(self.e % l)

    # -- bit operations (BitVec only)
    def _bits(self, o, f):
        if not self._isbv():
            raise Unsupported('bit operation on mathematical integer; use fresh_bv')
        l = self._coerce(o)
        if l is None:
            return NotImplemented
        return SInt(f(self.e, l))

    def __and__(self, o): return self._bits(o, lambda a, b: a & b)
    __rand__ = __and__
    def __or__(self, o): return self._bits(o, lambda a, b: a | b)
    __ror__ = __or__
    def __xor__(self, o): return self._bits(o, lambda a, b: a ^ b)
    __rxor__ = __xor__
    def __lshift__(self, o): return self._bits(o, lambda a, b: a << b)
    def __rshift__(self, o): return self._bits(o, lambda a, b: z3().LShR(a, b))

    # -- formatting: only ever reaches log / error texts in the harnessed code; a placeholder keeps
    #    those paths alive, and the context records that it happened
    def __str__(self):
        if _cur is not None:
            _cur.str_used += 1
        return '<sym:%s>' % (self.name or '?')
    __repr__ = __str__

    def __format__(self, spec):
        return str(self)


def _real_of_float(f):
    import fractions
    fr = fractions.Fraction(f)
    return z3().RealVal(fr.numerator) / z3().RealVal(fr.denominator)


def _cmp_float(si, f, op):
    if f != f:
        return False
    if f in (float('inf'), float('-inf')):
        raise Unsupported('compare with infinity')
    return SBool(op(z3().ToReal(si.e), _real_of_float(f)))


class SFix:
    """symbolic 24.8 fixed-point value k/256 standing in for a Python float that came out of
    wl_fixed_to_double (exactly representable, so == and int() are exact)."""
    __slots__ = ('k',)

    def __init__(self, k):
        self.k = k  # SInt or int

    def _ke(self):
        return _lift(self.k) if not isinstance(self.k, int) else z3().IntVal(self.k)

    def trunc(self):
        ke = self._ke()
        z = z3()
        return SInt(z.If(ke >= 0, ke / 256, -((-ke) / 256)))

    def __eq__(self, o):
        z = z3()
        if isinstance(o, SFix):
            return SBool(self._ke() == o._ke())
        if isinstance(o, SInt):
            return SBool(self._ke() == o.e * 256)
        if isinstance(o, bool):
            o = int(o)
        if isinstance(o, int):
            return SBool(self._ke() == o * 256)
        if isinstance(o, float):
            if o != o or o in (float('inf'), float('-inf')):
                return False
            v = o * 256
            if v != int(v):
                return False
            return SBool(self._ke() == int(v))
        return False

    def __ne__(self, o):
        r = self.__eq__(o)
        return (not r) if isinstance(r, bool) else SBool(z3().Not(r.e))

    def __hash__(self):
        raise Unsupported('hash of symbolic fixed')

    def __str__(self):
        if _cur is not None:
            _cur.str_used += 1
        return '<symfix>'
    __repr__ = __str__


def opaque_placeholder(name):
    """what an opaque text looks like once the code has turned it into a real str (formatting, join): it carries a backslash, a tab, both
    quotes and a non-ASCII letter, so that escaping / normalising / re-encoding steps applied afterwards change it visibly"""
    return '<text:%s \\ \t \' " \u00e9>' % name


class SStr:
    """opaque symbolic text: arbitrary content, only its emptiness is visible to the code (as a solver
    branch).  Conversions through the shadowed int()/float() give Conv objects that remember
    their source, so an oracle can say `the value is int(of exactly that text)`."""

    def __init__(self, name, nonempty=None, src=None, op=None, num=None):
        self.name = name
        self.src = src
        self.op = op
        self.num = num          # (lo, hi): the text is a decimal numeral of that range; int() of it can then be compared (fresh symbolic integer)
        self._numvar = None
        if nonempty is None:
            nonempty = cur().fresh_bool(name + '_nonempty') if cur() is not None and cur().symbolic else True
        self.nonempty = nonempty

    def __bool__(self):
        return bool(self.nonempty)

    def replace(self, a, b):
        return SStr(self.name + '.replace', self.nonempty, src=self, op=('replace', a, b))

    def __eq__(self, o):
        if o is self:
            return True
        if isinstance(o, str) and o == '':
            ne = self.nonempty
            return (not ne) if isinstance(ne, bool) else ~ne
        raise Unsupported('comparison of opaque text')

    def __ne__(self, o):
        r = self.__eq__(o)
        return (not r) if isinstance(r, bool) else ~r

    def strip(self, *a):
        if a:
            raise Unsupported('strip(chars) of opaque text')
        ne = False if self.nonempty is False else None
        return SStr(self.name + '.strip()', ne, src=self, op=('strip',))

    def __hash__(self):
        raise Unsupported('hash of opaque text')

    def __len__(self):
        raise Unsupported('len of opaque text')

    def __str__(self):
        return opaque_placeholder(self.name)
    __repr__ = __str__


class Conv:
    """result of int()/float() applied to an opaque text"""

    def __init__(self, kind, src):
        self.kind = kind
        self.src = src

    def __truediv__(self, o):
        return Conv(('div', o, self.kind), self.src)

    def __sub__(self, o):
        return Conv(('sub', o, self.kind), self.src)

    def _n(self):
        s = self.src
        if self.kind != 'int' or getattr(s, 'num', None) is None or _cur is None:
            raise Unsupported('comparison of a converted opaque text')
        if s._numvar is None:
            s._numvar = _cur.fresh_int(s.name + '#int', s.num[0], s.num[1])
        return s._numvar

    def __gt__(self, o):
        # ids come from digit strings of the grammar's POSINT production
        if self.kind == 'int' and getattr(self.src, 'num', None) is None and isinstance(o, int) and o == 0:
            return True
        return self._n() > o

    def __ge__(self, o):
        return self._n() >= o

    def __lt__(self, o):
        return self._n() < o

    def __le__(self, o):
        return self._n() <= o

    def __repr__(self):
        return '<%s of %r>' % (self.kind, self.src)


def sym_int(x=0, *a):
    if isinstance(x, SStr):
        return Conv('int', x)
    """drop-in for builtins.int inside a module under test"""
    if isinstance(x, SInt):
        return x
    if isinstance(x, SFix):
        return x.trunc()
    return int(x, *a)


def sym_float(x=0.0):
    if isinstance(x, SStr):
        return Conv('float', x)
    if isinstance(x, (SInt, SFix)):
        return x
    return float(x)


def sym_isinstance_int(x):
    return isinstance(x, (int, SInt))


# ------------------------------------------------------------------------------------------------
# contexts

class SymCtx:
    symbolic = True

    def __init__(self, plan, timeout_ms=60000):
        z = z3()
        self.s = z.Solver()
        self.s.set('timeout', timeout_ms)
        self.plan = plan
        self.trail = []
        self.queries = 0
        self.solver_s = 0.0
        self.vars = {}        # name -> z3 const (ints / bitvectors / bools)
        self.choices = []     # (name, index, n)
        self.checks = []      # (label, z3 bool or python bool)
        self.notes = []
        self.str_used = 0
        self.model = None
        self.decided = {}
        self.truncated = 0

    # -- solver plumbing
    def _check(self, *extra):
        t = time.time()
        r = self.s.check(*extra)
        self.solver_s += time.time() - t
        self.queries += 1
        r = str(r)
        if r == 'unknown':
            raise Inconclusive(self.s.reason_unknown())
        return r

    def decide(self, expr):
        # an expression already decided on this path keeps its outcome (no query, no trail entry)
        key = expr.get_id()
        hit = self.decided.get(key)
        if hit is not None:
            return hit[0]
        r = self._decide(expr)
        self.decided[key] = (r, expr)
        return r

    def _decide(self, expr):
        i = len(self.trail)
        z = z3()
        if i < len(self.plan):
            choice, alt = self.plan[i][:2]
            self.trail.append((choice, alt))
            self.s.add(expr if choice else z.Not(expr))
            self.model = None
            return choice
        # new decision; a cached model of the current constraints saves one of the two queries
        if self.model is None:
            if self._check() != 'sat':
                raise Abort()
            self.model = self.s.model()
        if z.is_true(self.model.eval(expr, model_completion=True)):
            other = self._check(z.Not(expr)) == 'sat'
            self.s.add(expr)
            self.trail.append((True, other))
            return True
        if self._check(expr) == 'sat':
            self.model = self.s.model()
            self.s.add(expr)
            self.trail.append((True, True))
            return True
        self.s.add(z.Not(expr))
        self.trail.append((False, False))
        return False

    def concretise(self, e, k=3):
        """the code under test needs a concrete value of e (hashing): fork over up to k solver-chosen values; the remaining values are
        NOT explored - the path set is then incomplete, which explore() reports as an error unless a replayed violation was found"""
        z = z3()
        for _ in range(k):
            i = len(self.trail)
            if i < len(self.plan) and len(self.plan[i]) == 3:
                v = self.plan[i][2]
            else:
                if self.model is None:
                    if self._check() != 'sat':
                        raise Abort()
                    self.model = self.s.model()
                v = self.model.eval(e, model_completion=True).as_long()
            vz = z.BitVecVal(v, e.size()) if z.is_bv(e) else z.IntVal(v)
            r = self._decide(e == vz)
            self.trail[-1] = tuple(self.trail[-1][:2]) + (v,)
            if r:
                return v
        self.truncated += 1
        raise Abort()

    def _free(self):
        """unconstrained binary decision (no solver call)"""
        i = len(self.trail)
        if i < len(self.plan):
            choice, alt = self.plan[i][:2]
            self.trail.append((choice, alt))
            return choice
        self.trail.append((True, True))
        return True

    # -- inputs
    def fresh_int(self, name, lo=None, hi=None, small=False):
        """symbolic integer with lo <= v < hi (either may be None = unbounded); small=True marks a small
        finite domain that may be concretised by forking when the code uses the value as an index"""
        assert name not in self.vars, name
        v = z3().Int(name)
        self.vars[name] = v
        if lo is not None:
            self.s.add(v >= lo)
        if hi is not None:
            self.s.add(v < hi)
        if lo is not None or hi is not None:
            self.model = None
        return SInt(v, name, (lo, hi) if small else None)

    def fresh_bv(self, name, bits):
        assert name not in self.vars, name
        v = z3().BitVec(name, bits)
        self.vars[name] = v
        return SInt(v, name)

    def fresh_bool(self, name):
        assert name not in self.vars, name
        v = z3().Bool(name)
        self.vars[name] = v
        return SBool(v)

    def choose(self, options, name='c'):
        options = list(options)
        n = len(options)
        assert n >= 1
        idx = n - 1
        for k in range(n - 1):
            if self._free():
                idx = k
                break
        self.choices.append((name, idx, n))
        return options[idx]

    def assume(self, cond):
        if isinstance(cond, bool):
            if not cond:
                raise Abort()
            return
        e = _b(cond)
        self.s.add(e)
        if self.model is not None and z3().is_true(self.model.eval(e, model_completion=True)):
            return
        if self._check() != 'sat':
            raise Abort()
        self.model = self.s.model()

    # -- outputs
    def check(self, label, cond):
        if isinstance(cond, SBool):
            cond = cond.e
        self.checks.append((label, cond))

    def note(self, key, value):
        self.notes.append((key, value))

    # helpers that work in both modes
    def eq(self, a, b):
        r = (a == b)
        return r

    def conj(self, items):
        z = z3()
        sym = []
        for x in items:
            if isinstance(x, SBool):
                sym.append(x.e)
            elif isinstance(x, bool):
                if not x:
                    return False
            else:
                sym.append(_b(x))
        if not sym:
            return True
        return SBool(z.And(*sym))

    def implies(self, a, b):
        z = z3()
        if isinstance(a, bool):
            return b if a else True
        if isinstance(b, bool):
            return True if b else SBool(z.Not(_b(a)))
        return SBool(z.Implies(_b(a), _b(b)))

    def ite(self, c, a, b):
        """non-forking if-then-else on ints"""
        if isinstance(c, bool):
            return a if c else b
        z = z3()
        la, lb = _lift(a), _lift(b)
        if isinstance(la, int):
            la = z.IntVal(la)
        if isinstance(lb, int):
            lb = z.IntVal(lb)
        return SInt(z.If(_b(c), la, lb))

    def alternative_assignments(self):
        """further witnesses of the current (satisfiable) constraints in which as many integer variables as possible lie beyond 256 resp. 2^16.
        Proxies cannot model object identity: `a is b` on two symbolic integers is decided by the interpreter, not the solver, and CPython shares
        int objects only up to 256 - a failure that depends on identity is real only for large values. The runner replays these when the first
        (smallest) witness does not reproduce."""
        z = z3()
        alts = []
        try:
            for bound in (256, 1 << 16):
                self.s.push()
                n = 0
                for name, v in self.vars.items():
                    if z.is_bool(v):
                        continue
                    c = z.UGT(v, bound) if z.is_bv(v) else (v > bound)
                    if str(self.s.check(c)) == 'sat':
                        self.s.add(c)
                        n += 1
                    self.queries += 1
                if n and str(self.s.check()) == 'sat':
                    a = self.model_assignment()
                    if a not in alts:
                        alts.append(a)
                self.s.pop()
        except Exception:
            pass
        return alts

    def model_assignment(self):
        m = self.s.model()
        ints = {}
        for name, v in self.vars.items():
            val = m.eval(v, model_completion=True)
            if z3().is_bool(v):
                ints[name] = bool(z3().is_true(val))
            elif z3().is_bv(v):
                ints[name] = val.as_long()
            else:
                ints[name] = val.as_long()
        return {'vars': ints, 'choices': [c[1] for c in self.choices]}


class ConcreteCtx:
    """replays one assignment with plain Python values"""
    symbolic = False

    def __init__(self, assignment):
        self.a = assignment
        self.ci = 0
        self.failures = []
        self.notes = []
        self.nchecks = 0
        self.str_used = 0
        self.choices = []

    def fresh_int(self, name, lo=None, hi=None, small=False):
        v = self.a['vars'].get(name)
        if v is None:
            v = lo if lo is not None else 0
        return int(v)

    def fresh_bv(self, name, bits):
        return int(self.a['vars'].get(name, 0))

    def fresh_bool(self, name):
        return bool(self.a['vars'].get(name, False))

    def choose(self, options, name='c'):
        options = list(options)
        if self.ci < len(self.a['choices']):
            idx = self.a['choices'][self.ci]
        else:
            idx = len(options) - 1
        self.ci += 1
        idx = min(idx, len(options) - 1)
        self.choices.append((name, idx, len(options)))
        return options[idx]

    def assume(self, cond):
        if not cond:
            raise Abort()

    def check(self, label, cond):
        self.nchecks += 1
        if not cond:
            self.failures.append(label)

    def note(self, key, value):
        self.notes.append((key, value))

    def eq(self, a, b):
        return a == b

    def conj(self, items):
        return all(bool(x) for x in items)

    def implies(self, a, b):
        return (not a) or bool(b)

    def ite(self, c, a, b):
        return a if c else b


# ------------------------------------------------------------------------------------------------
# exploration

class Result:
    def __init__(self):
        self.status = 'ok'        # ok | cex | unknown | error | budget
        self.paths = 0            # completed paths (reached the final checks)
        self.aborted = 0          # paths that left the assumptions
        self.truncated = 0        # paths cut after the bounded concretisation of a hashed symbolic value
        self.queries = 0
        self.solver_s = 0.0
        self.wall_s = 0.0
        self.checks = 0           # checks proved valid
        self.cex = None           # assignment
        self.cex_alts = []        # further assignments of the same path with large integer values
        self.failed = None        # label of the failing check
        self.detail = ''
        self.samples = []
        self.str_used = 0

    def as_dict(self):
        return dict(self.__dict__)


def harness_object_error(e):
    """AttributeError on an object whose class is defined by the harness (a fake standing in for a repository object lacks an
    attribute the code now uses): the harness needs updating, this says nothing about the property"""
    if not isinstance(e, AttributeError):
        return False
    obj = getattr(e, 'obj', None)
    if obj is None:
        return False
    cls = obj if isinstance(obj, type) else type(obj)
    mod = getattr(cls, '__module__', '') or ''
    return mod.split('.')[0] in ('harness', 'lib', 'spec') and not mod.startswith('lib.fakegdb') and mod != 'gdb'


def _one_path(run, plan, timeout_ms, want_sample):
    """execute one path (the real code under proxies) and decide its checks; returns a plain dict"""
    global _cur
    z = z3()
    out = {'trail': None, 'completed': False, 'aborted': False, 'status': 'ok', 'failed': None, 'cex': None, 'detail': '', 'queries': 0, 'solver_s': 0.0,
           'checks': 0, 'str_used': 0, 'sample': None}
    ctx = SymCtx(plan, timeout_ms)
    _cur = ctx
    import signal
    limit = int(os.environ.get('VERIF_PATH_TIMEOUT', '60'))

    def _alarm(signum, frame):
        raise PathTimeout()
    old_handler = None
    try:
        old_handler = signal.signal(signal.SIGALRM, _alarm)
        # repeating: an exception raised inside a destructor or a C call-back is swallowed by the interpreter, the next tick tries again
        signal.setitimer(signal.ITIMER_REAL, limit, 2)
    except (ValueError, OSError):
        old_handler = None
    def _timed_out():
        # non-termination of the code under test on this path: candidate violation, confirmed if the concrete replay does not terminate either
        out['status'] = 'cex'
        out['failed'] = 'does not terminate (no result within %d s on one path)' % limit
        try:
            signal.setitimer(signal.ITIMER_REAL, 0)
            out['cex'] = ctx.model_assignment() if ctx._check() == 'sat' else None
        except BaseException:
            out['cex'] = {'vars': {}, 'choices': [c[1] for c in ctx.choices]}
    try:
        ret = run(ctx)
        out['completed'] = True
        if ret is False:
            ctx.checks.append(('harness returned False', False))
    except PathTimeout:
        _timed_out()
    except Abort:
        out['aborted'] = True
        out['truncated'] = ctx.truncated
    except Inconclusive as e:
        out['status'] = 'unknown'
        out['detail'] = 'solver: %s' % (e,)
    except Exception as e:
        if 'PathTimeout' in str(e):
            # the watchdog fired inside a solver call-back (ctypes wraps the exception)
            _timed_out()
        else:
            import traceback
            tb = traceback.extract_tb(e.__traceback__)
            where = ' <- '.join('%s:%d' % (f.filename.split('/')[-1], f.lineno) for f in tb[-3:][::-1])
            repo_root = os.path.realpath(os.environ.get('VERIF_REPO', '/repo')) + os.sep
            verif_root = os.path.dirname(os.path.dirname(os.path.realpath(__file__))) + os.sep
            # the innermost frame that belongs to the repository or to the harness decides who raised (library frames below it are skipped)
            owner = None
            for f in reversed(tb):
                fn = os.path.realpath(f.filename)
                if fn.startswith(repo_root):
                    owner = 'repo'
                    break
                if fn.startswith(verif_root) and os.sep + 'fakegdb' + os.sep not in fn:
                    owner = 'harness'
                    break
            if harness_object_error(e):
                owner = 'harness'
            if type(e).__module__ != 'gdb' and owner != 'repo':
                # raised by harness code itself (innermost frame outside the repository): a harness bug, never a verdict
                out['status'] = 'error'
                out['detail'] = 'harness exception %s: %s @ %s' % (type(e).__name__, e, where)
            else:
                out['status'] = 'cex'
                out['failed'] = 'exception: %s: %s @ %s' % (type(e).__name__, e, where)
                try:
                    if ctx._check() == 'sat':
                        out['cex'] = ctx.model_assignment()
                    else:
                        out['status'] = 'error'
                        out['detail'] = 'exception on infeasible path: ' + out['failed']
                except Inconclusive:
                    out['status'] = 'unknown'
    except Unsupported as e:
        out['status'] = 'error'
        out['detail'] = 'unsupported operation on a symbolic value: %s' % (e,)
    finally:
        _cur = None
        try:
            signal.setitimer(signal.ITIMER_REAL, 0)
            if old_handler is not None:
                signal.signal(signal.SIGALRM, old_handler)
        except (ValueError, OSError):
            pass
    if out['completed'] and out['status'] == 'ok':
        out['str_used'] = ctx.str_used
        try:
            bad = None
            sym = []
            for label, cond in ctx.checks:
                if isinstance(cond, bool):
                    if not cond:
                        bad = label
                        break
                elif isinstance(cond, SBool):
                    sym.append((label, cond.e))
                else:
                    sym.append((label, cond))
            if bad is not None:
                if ctx._check() != 'sat':
                    raise Inconclusive('path condition unsat at end of path')
                out['status'] = 'cex'
                out['failed'] = bad
                out['cex'] = ctx.model_assignment()
                out['cex_alts'] = ctx.alternative_assignments()
            elif sym:
                neg = z.Not(z.And(*[c for _, c in sym]))
                r = ctx._check(neg)
                if r == 'sat':
                    m = ctx.s.model()
                    out['status'] = 'cex'
                    for label, c in sym:
                        if z.is_false(m.eval(c, model_completion=True)):
                            out['failed'] = label
                            break
                    ctx.s.add(neg)
                    ctx._check()
                    out['cex'] = ctx.model_assignment()
                    out['cex_alts'] = ctx.alternative_assignments()
                else:
                    out['checks'] += len(sym)
            out['checks'] += sum(1 for _, c in ctx.checks if isinstance(c, bool) and c)
            if out['status'] == 'ok' and want_sample:
                if ctx._check() == 'sat':
                    out['sample'] = {'assignment': ctx.model_assignment(), 'checks': [l for l, _ in ctx.checks][:12],
                                     'notes': [list(map(str, n)) for n in ctx.notes][:8]}
        except Inconclusive as e:
            out['status'] = 'unknown'
            out['detail'] = 'solver: %s' % (e,)
    out['trail'] = list(ctx.trail)
    out['queries'] = ctx.queries
    out['solver_s'] = ctx.solver_s
    return out


def _one_path_isolated(run, plan, timeout_ms, want_sample):
    """the same in a forked child: process-wide state the code under test may keep cannot leak from path to path"""
    import os, pickle
    rfd, wfd = os.pipe()
    pid = os.fork()
    if pid == 0:
        try:
            os.close(rfd)
            out = _one_path(run, plan, timeout_ms, want_sample)
            with os.fdopen(wfd, 'wb') as f:
                pickle.dump(out, f)
        except BaseException as e:
            try:
                os.write(wfd, pickle.dumps({'status': 'error', 'detail': 'child failed: %r' % (e,), 'trail': [], 'completed': False, 'aborted': False, 'failed': None,
                                            'cex': None, 'queries': 0, 'solver_s': 0.0, 'checks': 0, 'str_used': 0, 'sample': None}))
            except Exception:
                pass
        finally:
            os._exit(0)
    os.close(wfd)
    data = b''
    with os.fdopen(rfd, 'rb') as f:
        data = f.read()
    os.waitpid(pid, 0)
    return pickle.loads(data)


def explore(run, max_paths=None, max_seconds=None, n_samples=2, timeout_ms=60000, isolate=False):
    """explore all paths of run(ctx).  run records its proof obligations with ctx.check(label, cond)
    and may return False/None/True (False = concrete failure).  isolate=True runs every path in a forked child."""
    res = Result()
    plan = []
    t0 = time.time()
    step = _one_path_isolated if isolate else _one_path
    while True:
        o = step(run, plan, timeout_ms, len(res.samples) < n_samples)
        res.queries += o['queries']
        res.solver_s += o['solver_s']
        if o['aborted']:
            res.aborted += 1
            res.truncated += o.get('truncated', 0)
        if o['completed']:
            res.paths += 1
            res.str_used += o['str_used']
            res.checks += o['checks']
            if o['sample'] is not None:
                res.samples.append(o['sample'])
        if o['status'] != 'ok':
            res.status, res.failed, res.cex, res.detail = o['status'], o['failed'], o['cex'], o['detail']
            res.cex_alts = o.get('cex_alts') or []
            break
        plan = list(o['trail'])
        while plan and not (plan[-1][0] and plan[-1][1]):
            plan.pop()
        if not plan:
            break
        plan[-1] = (False, False) + tuple(plan[-1][2:])
        if max_paths is not None and res.paths + res.aborted >= max_paths:
            res.status = 'budget'
            res.detail = 'path budget %d reached' % max_paths
            break
        if max_seconds is not None and time.time() - t0 > max_seconds:
            res.status = 'budget'
            res.detail = 'time budget %ds reached' % max_seconds
            break
    if res.status == 'ok' and res.truncated:
        # the code hashed a symbolic value and only some concretisations were explored: not a verdict
        res.status = 'error'
        res.detail = 'unsupported operation on a symbolic value: used as dict key / set member; %d path(s) cut after 3 concretisations, no violation among the explored ones' % res.truncated
    res.wall_s = time.time() - t0
    return res


def replay(run, assignment):
    """run the harness on plain values; returns (reproduced, failures, notes, error)"""
    global _cur
    ctx = ConcreteCtx(assignment)
    _cur = None
    try:
        ret = run(ctx)
        if ret is False:
            ctx.failures.append('harness returned False')
    except Abort:
        return False, [], ctx.notes, 'assumption not met by the witness'
    return bool(ctx.failures), ctx.failures, ctx.notes, None


# ------------------------------------------------------------------------------------------------
# symbolic words: concrete length, symbolic characters (code points as SInt)

class SWord:
    """a string of known length whose characters are symbolic code points; supports the operations
    command-line handling code performs on words (== len startswith endswith [i] [a:b] in)"""

    def __init__(self, chars, name='w'):
        self.chars = list(chars)
        self.name = name

    @staticmethod
    def fresh(ctx, name, length, lo=32, hi=127):
        if not ctx.symbolic:
            return ''.join(chr(ctx.fresh_int('%s_%d' % (name, i), lo, hi)) for i in range(length))
        return SWord([ctx.fresh_int('%s_%d' % (name, i), lo, hi) for i in range(length)], name)

    def __len__(self):
        return len(self.chars)

    def _eq_str(self, s):
        if len(s) != len(self.chars):
            return False
        z = z3()
        conj = [(_lift(c) == ord(ch)) for c, ch in zip(self.chars, s)]
        conj = [c for c in conj if not isinstance(c, bool) or not c]
        if any(isinstance(c, bool) for c in conj):
            return False
        if not conj:
            return True
        return SBool(z.And(*conj) if len(conj) > 1 else conj[0])

    def __eq__(self, o):
        if o is self:
            return True
        if isinstance(o, str):
            return self._eq_str(o)
        if isinstance(o, SWord):
            if len(o.chars) != len(self.chars):
                return False
            z = z3()
            if not self.chars:
                return True
            return SBool(z.And(*[_lift(a) == _lift(b) for a, b in zip(self.chars, o.chars)]))
        return False

    def __ne__(self, o):
        r = self.__eq__(o)
        return (not r) if isinstance(r, bool) else ~r

    def __hash__(self):
        raise Unsupported('hash of a symbolic word')

    def _window(self, a):
        if len(a) > 2 or any(not isinstance(x, int) and x is not None for x in a):
            raise Unsupported('startswith/endswith with symbolic positions')
        lo = a[0] if len(a) > 0 and a[0] is not None else 0
        hi = a[1] if len(a) > 1 and a[1] is not None else len(self.chars)
        return SWord(self.chars[slice(lo, hi)])

    def startswith(self, s, *a):
        if not isinstance(s, str):
            raise Unsupported('startswith with a non-constant prefix')
        w = self._window(a) if a else self
        if len(s) > len(w.chars):
            return False
        return SWord(w.chars[:len(s)])._eq_str(s)

    def endswith(self, s, *a):
        if not isinstance(s, str):
            raise Unsupported('endswith with a non-constant suffix')
        w = self._window(a) if a else self
        if len(s) > len(w.chars):
            return False
        if not s:
            return True
        return SWord(w.chars[len(w.chars) - len(s):])._eq_str(s)

    def __getitem__(self, k):
        if isinstance(k, slice):
            return SWord(self.chars[k], self.name + '[..]')
        if isinstance(k, int):
            return SWord([self.chars[k]], self.name + '[%d]' % k)
        raise Unsupported('symbolic index into a word')

    def __contains__(self, sub):
        if not isinstance(sub, str):
            raise Unsupported('`in` with a non-constant needle')
        if sub == '':
            return True
        n = len(sub)
        z = z3()
        alts = []
        for i in range(0, len(self.chars) - n + 1):
            r = SWord(self.chars[i:i + n])._eq_str(sub)
            if r is True:
                return True
            if r is not False:
                alts.append(r.e)
        if not alts:
            return False
        return bool(SBool(z.Or(*alts) if len(alts) > 1 else alts[0]))

    def __iter__(self):
        return iter(SWord([c]) for c in self.chars)

    def find(self, sub, start=0, end=None):
        """first position of a constant needle (forks on each candidate position)"""
        if not isinstance(sub, str) or not isinstance(start, int) or not (end is None or isinstance(end, int)):
            raise Unsupported('find with a non-constant needle / symbolic bounds')
        n = len(self.chars)
        if start < 0:
            start = max(0, n + start)
        end = n if end is None else (max(0, n + end) if end < 0 else min(end, n))
        for i in range(start, end - len(sub) + 1):
            r = SWord(self.chars[i:i + len(sub)])._eq_str(sub)
            if r is True or (r is not False and bool(r)):
                return i
        return -1

    def index(self, sub, *a):
        i = self.find(sub, *a)
        if i < 0:
            raise ValueError('substring not found')
        return i

    def rfind(self, sub, start=0, end=None):
        if not isinstance(sub, str) or not isinstance(start, int) or not (end is None or isinstance(end, int)):
            raise Unsupported('rfind with a non-constant needle / symbolic bounds')
        n = len(self.chars)
        end = n if end is None else min(end, n)
        for i in range(end - len(sub), start - 1, -1):
            r = SWord(self.chars[i:i + len(sub)])._eq_str(sub)
            if r is True or (r is not False and bool(r)):
                return i
        return -1

    def count(self, sub):
        if not isinstance(sub, str) or len(sub) != 1:
            raise Unsupported('count of a non-single-character needle')
        return sum(1 for c in self.chars if bool(SWord([c])._eq_str(sub)))

    def __str__(self):
        if _cur is not None:
            _cur.str_used += 1
        return '<word:%s>' % self.name
    __repr__ = __str__

    def __add__(self, o):
        raise Unsupported('concatenation of a symbolic word')
    __radd__ = __add__

    # helpers for oracles (non-forking)
    def is_(self, s):
        r = self._eq_str(s)
        return r
