"""fake `gdb` module: typed inferior memory (struct layouts with byte offsets), frames, threads, breakpoints,
commands, execute log, and an evaluator for the C expressions the plugin hands to parse_and_eval.
Leaf values may be symbolic (lib.symx proxies).  It lives in its own directory that is put on sys.path
only by the harnesses that need it (its mere presence makes core.util.check_gdb() true)."""
TYPE_CODE_PTR, TYPE_CODE_STRUCT, TYPE_CODE_INT, TYPE_CODE_UNION, TYPE_CODE_ARRAY = 1, 2, 3, 4, 5
STDOUT, STDERR, STDLOG = 0, 1, 2
COMMAND_DATA = 1


class error(RuntimeError):
    pass


class MemoryError(error):
    pass


class Field:
    def __init__(self, name, bitpos, type):
        self.name, self.bitpos, self.type = name, bitpos, type


class Type:
    def __init__(self, name, code, target=None, fields=None, sizeof=8):
        self.name, self.code, self._t, self._f, self.sizeof = name, code, target, fields or [], sizeof
        self._ptr = None

    def pointer(self):
        if self._ptr is None:
            self._ptr = Type(None, TYPE_CODE_PTR, target=self, sizeof=8)
        return self._ptr

    def target(self):
        return self._t

    def fields(self):
        return list(self._f)

    def strip_typedefs(self):
        return self

    def __str__(self):
        return self.name or (str(self._t) + ' *')


CHAR = Type('char', TYPE_CODE_INT, sizeof=1)
INT = Type('int', TYPE_CODE_INT, sizeof=4)
UINT = Type('unsigned int', TYPE_CODE_INT, sizeof=4)
VOID = Type('void', TYPE_CODE_INT, sizeof=1)
REG = {'char': CHAR, 'int': INT, 'unsigned int': UINT, 'uint32_t': UINT, 'void': VOID}


def lookup_type(n):
    n = n.replace('struct ', '').strip()
    if n not in REG:
        raise error('No type named %s.' % n)
    return REG[n]


def struct(name, fields, code=TYPE_CODE_STRUCT):
    """fields: list of (name, Type); natural alignment like the C ABI on x86-64"""
    off = 0
    fs = []
    for n, ty in fields:
        al = min(ty.sizeof, 8) or 1
        off = (off + al - 1) // al * al
        fs.append(Field(n, off * 8, ty))
        off += ty.sizeof
    size = (off + 7) // 8 * 8
    t = Type(name, code, fields=fs, sizeof=size)
    REG[name] = t
    return t


def declare(name):
    t = Type(name, TYPE_CODE_STRUCT, fields=[], sizeof=8)
    REG[name] = t
    return t


def define(t, fields):
    off = 0
    fs = []
    for n, ty in fields:
        al = min(ty.sizeof, 8) or 1
        off = (off + al - 1) // al * al
        fs.append(Field(n, off * 8, ty))
        off += ty.sizeof
    t._f = fs
    t.sizeof = (off + 7) // 8 * 8
    return t


class Obj:
    """a struct instance in fake memory"""

    def __init__(self, type, vals, addr=0x1000):
        self.type, self.vals, self.addr = type, vals, addr


class Value:
    """payload: Obj (pointer to struct / struct), None (NULL), str (char*), list (array / pointer to elements),
    dict (union), or an integer (possibly symbolic)"""

    def __init__(self, type, payload, off=0):
        self.type, self.p, self.off = type, payload, off

    def cast(self, t):
        return Value(t, self.p, self.off)

    def __add__(self, n):
        if self.type.code != TYPE_CODE_PTR:
            raise error('Argument to arithmetic operation not a number or boolean.')
        return Value(self.type, self.p, self.off + n * max(1, self.type.target().sizeof))

    def dereference(self):
        if self.type.code != TYPE_CODE_PTR:
            raise error('Attempt to take contents of a non-pointer value.')
        if self.p is None:
            raise MemoryError('Cannot access memory at address 0x%x' % self.off)
        if isinstance(self.p, Obj):
            for f in self.p.type.fields():
                if f.bitpos // 8 == self.off:
                    return self.p.vals[f.name]
            if self.off == 0:
                return Value(self.p.type, self.p)
            raise MemoryError('Cannot access memory at address 0x%x (no member of %s at offset %d)' % (self.p.addr + self.off, self.p.type.name, self.off))
        raise MemoryError('Cannot access memory (dereference of a non-struct pointer)')

    def __getitem__(self, k):
        if isinstance(k, str):
            if self.p is None:
                raise MemoryError('Cannot access memory at address 0x0')
            if isinstance(self.p, Obj):
                if k not in self.p.vals:
                    raise error('There is no member named %s.' % k)
                return self.p.vals[k]
            if isinstance(self.p, dict):
                if k not in self.p:
                    raise error('There is no member named %s.' % k)
                return self.p[k]
            raise error('Attempt to extract a component of a value that is not a structure.')
        if isinstance(self.p, list):
            # symbolic or concrete index into an array / pointed-to elements
            idx = k.__index__() if not isinstance(k, int) else k
            if idx < 0 or idx >= len(self.p):
                raise MemoryError('Cannot access memory (index %d of %d elements)' % (idx, len(self.p)))
            return self.p[idx]
        raise error('Cannot subscript requested type.')

    def as_int(self):
        if self.p is None:
            return 0
        if isinstance(self.p, Obj):
            return self.p.addr
        if isinstance(self.p, (str, list, dict)):
            return 0x7000
        return self.p

    def __int__(self):
        return self.as_int()

    def string(self, encoding=None, errors=None, length=-1):
        # gdb.Value.string([encoding [, errors [, length]]]): the bytes of the C string in the inferior, decoded with the given encoding, by default
        # the target charset (UTF-8 here, what Wayland strings are in); the model keeps the text and goes through its bytes
        if not isinstance(self.p, str):
            raise error('Trying to read string with inappropriate type')
        if type(self.p) is not str:
            return self.p              # a symbolic / opaque text: no encoding can be applied
        raw = self.p.encode('utf-8', 'surrogateescape')
        if length is not None and length >= 0:
            raw = raw[:length]
        return raw.decode(encoding or 'utf-8', errors or 'strict')

    def __str__(self):
        v = self.as_int()
        return str(v)


class Frame:
    def __init__(self, name, variables, older=None):
        self._name, self.vars, self._older = name, variables, older

    def read_var(self, n):
        if n not in self.vars:
            raise ValueError('Variable \'%s\' not found.' % n)
        return self.vars[n]

    def older(self):
        return self._older

    def name(self):
        return self._name

    def function(self):
        return self._name


class _Thread:
    def __init__(self, num):
        self.global_num = num
        self.num = num


class _State:
    frame = None
    thread = _Thread(1)
    executed = []
    written = []
    breakpoints = []
    commands = []


def reset():
    _State.frame = None
    _State.thread = _Thread(1)
    _State.executed = []
    _State.written = []
    _State.breakpoints = []
    _State.commands = []


def selected_frame():
    if _State.frame is None:
        raise error('No frame selected.')
    return _State.frame


def selected_thread():
    return _State.thread


class Breakpoint:
    def __init__(self, spec=None, *a, **k):
        self.location = spec
        _State.breakpoints.append(self)

    def stop(self):
        return True


class Command:
    def __init__(self, name=None, *a, **k):
        self.cmd_name = name
        _State.commands.append(self)


def execute(s, *a, **k):
    _State.executed.append(s)


def breakpoints():
    return list(_State.breakpoints)


def write(s, stream=None):
    _State.written.append((stream, s))


class ExprValue:
    """result of parse_and_eval: remembers the expression text and the symbolic leaf that was formatted into it"""

    def __init__(self, text, leaves):
        self.text, self.leaves = text, leaves

    def __float__(self):
        from lib import cexpr
        return cexpr.eval_concrete(self.text)


_leaves = {}


def register_leaf(placeholder, value):
    _leaves[placeholder] = value


def parse_and_eval(text):
    return ExprValue(text, dict(_leaves))
