"""environment stubs shared by the harnesses (no z3 needed)"""


class AssocDict:
    """association-list mapping: same in/[]/[]=/get/del/pop/items interface as dict, compares keys
    with == and never hashes, so symbolic keys stay symbolic (each comparison is a solver branch)"""

    def __init__(self, d=None):
        self.items_ = list(d.items()) if d else []
        # a collections.defaultdict keeps its behaviour: a missing key read with [] is created from the factory
        self.default_factory = getattr(d, 'default_factory', None)

    def __contains__(self, k):
        for kk, _ in self.items_:
            if kk == k:
                return True
        return False

    def __getitem__(self, k):
        for kk, v in self.items_:
            if kk == k:
                return v
        if self.default_factory is not None:
            v = self.default_factory()
            self.items_.append((k, v))
            return v
        raise KeyError(k)

    def __setitem__(self, k, v):
        for i, (kk, _) in enumerate(self.items_):
            if kk == k:
                self.items_[i] = (kk, v)
                return
        self.items_.append((k, v))

    def __delitem__(self, k):
        for i, (kk, _) in enumerate(self.items_):
            if kk == k:
                del self.items_[i]
                return
        raise KeyError(k)

    def get(self, k, default=None):
        for kk, v in self.items_:
            if kk == k:
                return v
        return default

    def pop(self, k, *default):
        for i, (kk, v) in enumerate(self.items_):
            if kk == k:
                del self.items_[i]
                return v
        if default:
            return default[0]
        raise KeyError(k)

    def setdefault(self, k, default=None):
        for kk, v in self.items_:
            if kk == k:
                return v
        self.items_.append((k, default))
        return default

    def keys(self):
        return [k for k, _ in self.items_]

    def values(self):
        return [v for _, v in self.items_]

    def items(self):
        return list(self.items_)

    def __iter__(self):
        return iter(self.keys())

    def __len__(self):
        return len(self.items_)


class _RecFile:
    """the terminal behind a stream: one item per print() of the real stream class (text, then the newline print() appends)"""

    def __init__(self, items):
        self.items = items
        self.pending = None

    def write(self, s):
        if s == chr(10):
            self.items.append(self.pending if self.pending is not None else '')
            self.pending = None
        else:
            self.pending = (self.pending or '') + s
        return len(s)

    def flush(self):
        pass

    def isatty(self):
        return False


class RecStream:
    """recording stdout / stderr: the REAL stream class (core.output.stream.Std) writing to a recording file object; `items` = what reached the terminal,
    one entry per print. (If the stream classes cannot be imported or constructed this way, writes are recorded directly.)"""

    def __init__(self):
        self.items = []
        self._real = None
        try:
            from core.output import stream
            self._real = stream.Std(_RecFile(self.items))
        except Exception:
            self._real = None

    def write(self, thing):
        if self._real is not None:
            self._real.write(thing)
        else:
            self.items.append(str(thing))


def make_output(show_unprocessed=True):
    from core.output import Output
    out, err = RecStream(), RecStream()
    o = Output(False, show_unprocessed, out, err)
    return o, out, err


class Leaf:
    """abstract matcher leaf: verdict fixed per message by a table the harness fills with solver
    chosen booleans; always() is a solver-chosen annotation consistent with the verdicts"""

    def __init__(self, name, verdict=None, always=None):
        self.name = name
        self.verdict = verdict if verdict is not None else {}
        self._always = always
        self.calls = 0

    def matches(self, m):
        self.calls += 1
        if self._always is not None:
            return self._always
        return self.verdict[id(m)]

    def simplify(self):
        return self

    def always(self):
        return self._always

    def __str__(self):
        return self.name

    def __repr__(self):
        return 'Leaf(' + self.name + ')'
