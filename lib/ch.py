"""CrossHair driver: one OS process per obligation, strict verdict mapping, concrete replay.

  Confirmed over all paths           -> ok (discharged for all values within the contract's bounds)
  error: false when calling f(args)  -> cex (candidate; replayed by calling f(args) under /venv/bin/python)
  error: <Exception> when calling    -> cex
  Not confirmed / Unable to meet precondition / timeout / internal error -> unknown (inconclusive)
"""
import os, re, subprocess, sys, time, ast

VERIF = os.path.dirname(os.path.dirname(os.path.abspath(__file__)))
REPO = os.environ.get('VERIF_REPO', '/repo')


def _line_of(path, func):
    for i, l in enumerate(open(path), 1):
        if l.startswith('def %s(' % func):
            return i
    raise KeyError(func)


def run(module, func, timeout_s=60):
    """-> result dict for lib.runner"""
    path = os.path.join(VERIF, module.replace('.', '/') + '.py')
    line = _line_of(path, func) + 1
    env = dict(os.environ)
    env['PYTHONPATH'] = VERIF + ':' + REPO
    env['PYTHONDONTWRITEBYTECODE'] = '1'
    t = time.time()
    try:
        p = subprocess.run([sys.executable, '-m', 'crosshair', 'check', '--report_all', '--per_condition_timeout', str(timeout_s),
                            '%s:%d' % (path, line)], capture_output=True, text=True, env=env, timeout=timeout_s * 3 + 60, cwd=VERIF)
        out = p.stdout + p.stderr
    except subprocess.TimeoutExpired:
        return {'status': 'unknown', 'detail': 'crosshair process timed out', 'paths': 0, 'queries': 0, 'solver_s': time.time() - t}
    dt = time.time() - t
    res = {'paths': 1, 'queries': 1, 'solver_s': dt, 'checks': 0, 'samples': [{'crosshair': out.strip()[-300:], 'function': func}]}
    if 'Confirmed over all paths' in out and 'error:' not in out:
        res.update(status='ok', checks=1)
        return res
    m = re.search(r'error: (.*?) when calling (\w+)\((.*)$', out, re.M)
    if m:
        rest = re.sub(r' \(which (returns|raises) .*\)\s*$', '', m.group(3).rstrip())
        args = rest[:-1] if rest.endswith(')') else rest
        res.update(status='cex', failed='%s: %s' % (func, m.group(1)), cex={'func': func, 'module': module, 'args': args, 'crosshair': m.group(0)[:500]})
        return res
    if 'error:' in out:
        res.update(status='unknown', detail='crosshair reported an error it could not attribute to a call: ' + out.strip()[-300:])
        return res
    res.update(status='unknown', detail=('crosshair: ' + out.strip().split('info:')[-1].strip())[:200] if out.strip() else 'crosshair: no output')
    return res


def replay(case, cex):
    """call the contract function on the concrete arguments CrossHair reported; reproduced iff it returns False
    or raises"""
    import importlib
    mod = importlib.import_module(cex['module'])
    f = getattr(mod, cex['func'])
    try:
        tree = ast.parse('f(%s)' % cex['args'], mode='eval')
        args = [ast.literal_eval(a) for a in tree.body.args]
        kwargs = {k.arg: ast.literal_eval(k.value) for k in tree.body.keywords}
    except Exception as e:
        return False, 'cannot evaluate the reported arguments %r: %s' % (cex['args'], e)
    try:
        r = f(*args, **kwargs)
    except Exception as e:
        return True, '%s(%s) raised %s: %s' % (cex['func'], cex['args'], type(e).__name__, e)
    if r is False:
        return True, '%s(%s) returned False' % (cex['func'], cex['args'])
    return False, '%s(%s) returned %r' % (cex['func'], cex['args'], r)


def ob(name, module, func, desc, functions, bounds, timeout_s=60, expect_cex=False, outside=''):
    from lib.runner import Ob
    return Ob(name, 'crosshair', desc, functions, bounds, lambda case, m=module, f=func, t=timeout_s: run(m, f, t), cases=[func],
              replay=replay, expect_cex=expect_cex, outside=outside)
