"""sre2smt -- Python `re` patterns (read from the LIVE compiled pattern objects) -> z3 regular
expressions, with capture groups made visible through private-use marker characters.

AST (plain tuples so that specification grammars are written with the same constructors):
  ('eps',) ('cls', ranges, neg) ('cat', [..]) ('alt', [..]) ('star', x) ('plus', x) ('opt', x)
  ('loop', x, lo, hi) ('grp', name, x)
ranges: list of (lo, hi) code points.  Negated classes and '.' are taken relative to SIGMA = all
characters except '\\n' and the marker block.

Modes of to_z3:
  plain    groups dropped
  marked   every group in `marks` is wrapped in its open/close marker characters
  erasepre marker* interleaved everywhere (the preimage of the plain language under marker erasure)
"""
import re
try:
    import re._parser as sre_parse
    import re._constants as sre_c
except ImportError:  # pragma: no cover
    import sre_parse
    import sre_constants as sre_c

MARK_LO, MARK_HI = 0xE000, 0xE0FF

# representatives of the non-ASCII members of \d \w \s (claims are for ASCII + these)
UNI_DIGIT = 0x0663      # ARABIC-INDIC DIGIT THREE: in \d and \w
UNI_WORD = 0x00E9       # e acute: in \w
UNI_SPACE = 0x00A0      # no-break space: in \s

DIGIT = [(48, 57), (UNI_DIGIT, UNI_DIGIT)]
WORD = [(48, 57), (65, 90), (95, 95), (97, 122), (UNI_WORD, UNI_WORD), (UNI_DIGIT, UNI_DIGIT)]
SPACE = [(9, 13), (28, 32), (UNI_SPACE, UNI_SPACE)]


class Untranslatable(Exception):
    pass


# ---------------------------------------------------------------------------------- constructors
def eps(): return ('eps',)
def cls(ranges, neg=False): return ('cls', list(ranges), neg)
def ch(c): return ('cls', [(ord(c), ord(c))], False)
def rng(a, b): return ('cls', [(ord(a), ord(b))], False)
def chars(s): return ('cls', [(ord(c), ord(c)) for c in s], False)
def lit(s): return ('cat', [ch(c) for c in s]) if s else ('eps',)
def cat(*xs): return ('cat', list(xs))
def alt(*xs): return ('alt', list(xs))
def star(x): return ('star', x)
def plus(x): return ('plus', x)
def opt(x): return ('opt', x)
def loop(x, lo, hi): return ('loop', x, lo, hi)
def grp(name, x): return ('grp', name, x)
def union_cls(*cs):
    r = []
    for c in cs:
        assert c[0] == 'cls' and not c[2]
        r += c[1]
    return ('cls', r, False)
def minus_cls(c, removed):
    """class c (positive ranges) minus the characters in `removed`"""
    out = []
    rem = sorted(set(ord(x) for x in removed))
    for lo, hi in c[1]:
        cur = lo
        for r in rem:
            if cur <= r <= hi:
                if cur <= r - 1:
                    out.append((cur, r - 1))
                cur = r + 1
        if cur <= hi:
            out.append((cur, hi))
    return ('cls', out, False)


# ------------------------------------------------------------------------------- from re patterns
def _category(c):
    c = str(c)
    if c.endswith('CATEGORY_DIGIT'): return DIGIT, False
    if c.endswith('CATEGORY_NOT_DIGIT'): return DIGIT, True
    if c.endswith('CATEGORY_WORD'): return WORD, False
    if c.endswith('CATEGORY_NOT_WORD'): return WORD, True
    if c.endswith('CATEGORY_SPACE'): return SPACE, False
    if c.endswith('CATEGORY_NOT_SPACE'): return SPACE, True
    raise Untranslatable('category ' + c)


def _charset(items):
    ranges, neg = [], False
    for op, av in items:
        op = str(op)
        if op == 'NEGATE':
            neg = True
        elif op == 'LITERAL':
            ranges.append((av, av))
        elif op == 'RANGE':
            ranges.append((av[0], av[1]))
        elif op == 'CATEGORY':
            r, n = _category(av)
            if n:
                raise Untranslatable('negated category inside a set')
            ranges += r
        else:
            raise Untranslatable('set item ' + op)
    return ('cls', ranges, neg)


def _seq(seq, names):
    out = []
    items = list(seq)
    for pos, (op, av) in enumerate(items):
        op = str(op)
        if op == 'LITERAL':
            out.append(('cls', [(av, av)], False))
        elif op == 'NOT_LITERAL':
            out.append(('cls', [(av, av)], True))
        elif op == 'ANY':
            out.append(('cls', [], True))
        elif op == 'IN':
            if len(av) == 1 and str(av[0][0]) == 'CATEGORY':
                r, n = _category(av[0][1])
                out.append(('cls', r, n))
            else:
                out.append(_charset(av))
        elif op == 'BRANCH':
            out.append(('alt', [_seq(b, names) for b in av[1]]))
        elif op == 'SUBPATTERN':
            gid, add_flags, del_flags, sub = av
            if add_flags or del_flags:
                raise Untranslatable('inline flags')
            inner = _seq(sub, names)
            out.append(('grp', names[gid], inner) if gid in names else inner)
        elif op in ('MAX_REPEAT', 'MIN_REPEAT'):
            lo, hi, sub = av
            x = _seq(sub, names)
            if hi == sre_c.MAXREPEAT:
                if lo == 0: out.append(('star', x))
                elif lo == 1: out.append(('plus', x))
                else: out.append(('cat', [x] * lo + [('star', x)]))
            elif (lo, hi) == (0, 1):
                out.append(('opt', x))
            else:
                out.append(('loop', x, lo, hi))
        elif op == 'AT':
            a = str(av)
            if a.endswith('AT_BEGINNING') and pos == 0 and seq is _TOP[0]:
                _TOP[1]['begin'] = True
            elif a.endswith('AT_END') and pos == len(items) - 1 and seq is _TOP[0]:
                _TOP[1]['end'] = True
            else:
                raise Untranslatable('anchor %s not at the ends of the pattern' % a)
        else:
            raise Untranslatable('regex construct ' + op)
    return ('cat', out)


_TOP = [None, None]


def from_pattern(compiled):
    """-> (ast, anchors) ; anchors = {'begin': bool, 'end': bool}.  Only flags=re.UNICODE (the default
    for str patterns) is accepted."""
    if compiled.flags & ~re.UNICODE:
        raise Untranslatable('flags %r' % compiled.flags)
    tree = sre_parse.parse(compiled.pattern)
    names = {v: k for k, v in compiled.groupindex.items()}
    anchors = {'begin': False, 'end': False}
    _TOP[0], _TOP[1] = tree, anchors
    ast = _seq(tree, names)
    return ast, anchors


def top_branch(ast):
    """the alternatives of a pattern of the shape ^(?:A|B|...)$ ; None if it has another shape"""
    if ast[0] == 'cat' and len(ast[1]) == 1 and ast[1][0][0] == 'alt':
        return ast[1][0][1]
    return None


def group_names(ast, acc=None):
    acc = set() if acc is None else acc
    k = ast[0]
    if k == 'grp':
        acc.add(ast[1]); group_names(ast[2], acc)
    elif k in ('cat', 'alt'):
        for x in ast[1]: group_names(x, acc)
    elif k in ('star', 'plus', 'opt', 'loop'):
        group_names(ast[1], acc)
    return acc


# ------------------------------------------------------------------------------------- to z3
class Z:
    """z3-side of the translation; one instance per process"""

    def __init__(self):
        import z3
        self.z3 = z3
        self.RS = z3.ReSort(z3.StringSort())
        self.marks = {}
        allc = z3.AllChar(self.RS)
        self.notmark = z3.Complement(z3.Range(chr(MARK_LO), chr(MARK_HI)))
        self.SIGMA = z3.Intersect(allc, self.notmark, z3.Complement(z3.Re('\n')))
        self.SIGMA_STAR = z3.Star(self.SIGMA)
        self.MSTAR = z3.Star(z3.Range(chr(MARK_LO), chr(MARK_HI)))
        self.queries = 0
        self.solver_s = 0.0

    def mark(self, name, close):
        k = (name, close)
        if k not in self.marks:
            self.marks[k] = chr(MARK_LO + len(self.marks))
            assert len(self.marks) < 250
        return self.marks[k]

    def _cls(self, ranges, neg):
        z3 = self.z3
        rs = [z3.Re(chr(lo)) if lo == hi else z3.Range(chr(lo), chr(hi)) for lo, hi in ranges]
        if not rs:
            r = None
        elif len(rs) == 1:
            r = rs[0]
        else:
            r = z3.Union(*rs)
        if neg:
            return self.SIGMA if r is None else z3.Intersect(self.SIGMA, z3.Complement(r))
        if r is None:
            return z3.Empty(self.RS)
        return r

    def re(self, n, mode='plain', marks=None, open_only=()):
        """marks: set of group names to mark (None = all) in 'marked' mode; groups in open_only get
        only their opening marker (their presence matters, not their extent)"""
        z3 = self.z3
        k = n[0]
        if k == 'eps':
            return z3.Re('')
        if k == 'cls':
            c = self._cls(n[1], n[2])
            return z3.Concat(c, self.MSTAR) if mode == 'erasepre' else c
        if k == 'cat':
            ps = [self.re(x, mode, marks, open_only) for x in n[1]]
            return z3.Re('') if not ps else ps[0] if len(ps) == 1 else z3.Concat(*ps)
        if k == 'alt':
            ps = [self.re(x, mode, marks, open_only) for x in n[1]]
            return ps[0] if len(ps) == 1 else z3.Union(*ps)
        if k == 'star':
            return z3.Star(self.re(n[1], mode, marks, open_only))
        if k == 'plus':
            return z3.Plus(self.re(n[1], mode, marks, open_only))
        if k == 'opt':
            return z3.Option(self.re(n[1], mode, marks, open_only))
        if k == 'loop':
            return z3.Loop(self.re(n[1], mode, marks, open_only), n[2], n[3])
        if k == 'grp':
            inner = self.re(n[2], mode, marks, open_only)
            if mode == 'marked' and n[1] in open_only:
                return z3.Concat(z3.Re(self.mark(n[1], 0)), inner)
            if mode == 'marked' and (marks is None or n[1] in marks):
                return z3.Concat(z3.Re(self.mark(n[1], 0)), inner, z3.Re(self.mark(n[1], 1)))
            return inner
        raise Untranslatable(k)

    def erasepre(self, n):
        return self.z3.Concat(self.MSTAR, self.re(n, 'erasepre'))

    # ---- queries
    def check(self, constraints, timeout_ms=60000, want_model_of=None):
        """-> ('sat', witness string or None) | ('unsat', None) | ('unknown', reason)
        The query runs in a forked child that is killed at the deadline: z3's sequence solver does not
        always honour its own timeout."""
        import time, os, pickle, select, signal
        t = time.time()
        self.queries += 1
        rfd, wfd = os.pipe()
        pid = os.fork()
        if pid == 0:
            try:
                os.close(rfd)
                z3 = self.z3
                s = z3.Solver()
                s.set('timeout', timeout_ms)
                for c in constraints:
                    s.add(c)
                r = str(s.check())
                out = (r, None)
                if r == 'sat' and want_model_of is not None:
                    out = (r, _unescape(s.model().eval(want_model_of, model_completion=True).as_string()))
                elif r == 'unknown':
                    out = (r, s.reason_unknown())
                os.write(wfd, pickle.dumps(out))
            except BaseException as e:
                try:
                    os.write(wfd, pickle.dumps(('unknown', 'child error: %r' % (e,))))
                except Exception:
                    pass
            finally:
                os._exit(0)
        os.close(wfd)
        data = b''
        deadline = t + timeout_ms / 1000.0 + 5
        while True:
            left = deadline - time.time()
            if left <= 0:
                break
            rl, _, _ = select.select([rfd], [], [], left)
            if not rl:
                break
            chunk = os.read(rfd, 1 << 16)
            if not chunk:
                break
            data += chunk
        os.close(rfd)
        try:
            os.kill(pid, signal.SIGKILL)
        except ProcessLookupError:
            pass
        os.waitpid(pid, 0)
        self.solver_s += time.time() - t
        if not data:
            return 'unknown', 'hard timeout after %ds' % (timeout_ms // 1000)
        return pickle.loads(data)

    def member(self, text, rex):
        """decide text in L(rex) for a concrete text"""
        z3 = self.z3
        r, _ = self.check([z3.InRe(z3.StringVal(text), rex)], timeout_ms=20000)
        if r == 'unknown':
            raise Untranslatable('membership unknown')
        return r == 'sat'

    # ---- marker utilities
    def insert_marks(self, text, match, marks=None):
        """the marked string that Python's own match object denotes (named groups are never nested
        in the patterns handled here; checked)"""
        spans = []
        for name in match.re.groupindex:
            if marks is not None and name not in marks:
                continue
            a, b = match.span(name)
            if a >= 0:
                spans.append((a, b, name))
        for (a, b, n) in spans:
            for (c, d, m) in spans:
                if n != m and a < d and c < b:
                    raise Untranslatable('nested/overlapping named groups %s %s' % (n, m))
        out = []
        for pos in range(len(text) + 1):
            out += [self.mark(n, 1) for (a, b, n) in spans if b == pos and a < pos]
            for (a, b, n) in spans:
                if a == pos and b == pos:
                    out += [self.mark(n, 0), self.mark(n, 1)]
            out += [self.mark(n, 0) for (a, b, n) in spans if a == pos and b > pos]
            if pos < len(text):
                out.append(text[pos])
        return ''.join(out)

    def split_marks(self, marked):
        """marked string -> (plain text, {group name: captured text}) ; last occurrence wins"""
        inv = {v: k for k, v in self.marks.items()}
        plain = []
        open_at = {}
        groups = {}
        for c in marked:
            if c in inv:
                name, close = inv[c]
                if not close:
                    open_at[name] = len(plain)
                else:
                    groups[name] = ''.join(plain[open_at.get(name, 0):])
            else:
                plain.append(c)
        return ''.join(plain), groups


def _unescape(s):
    """z3 prints non-ASCII characters of a string value as \\u{..}"""
    return re.sub(r'\\u\{([0-9a-fA-F]+)\}', lambda m: chr(int(m.group(1), 16)), s)
