"""evaluator for the small C expressions the GDB plugin builds (integer literals with LL suffix, + - <<,
parentheses, the casts (double)(void*)X = reinterpret the 64-bit pattern as an IEEE double), with two
back ends: concrete (Python ints / struct) and z3 (bit-vectors / floating point)."""
import re, struct

TOK = re.compile(r'\s*(?:(\d+)(LL|L|ULL|UL|U)?|(<<|>>|[-+()*])|(double|void|long|int)|(@[A-Za-z0-9_]+@))')


def tokenize(s):
    out, i = [], 0
    s = s.strip()
    while i < len(s):
        m = TOK.match(s, i)
        if not m:
            raise ValueError('cannot tokenise %r at %d' % (s, i))
        if m.group(1):
            out.append(('num', int(m.group(1))))
        elif m.group(3):
            out.append(('op', m.group(3)))
        elif m.group(4):
            out.append(('kw', m.group(4)))
        else:
            out.append(('leaf', m.group(5)))
        i = m.end()
    return out


class Parser:
    """expr := shift (('+'|'-') shift)* ; shift := unary ('<<' unary)* ; unary := cast* primary"""

    def __init__(self, toks, be):
        self.t, self.i, self.be = toks, 0, be

    def peek(self):
        return self.t[self.i] if self.i < len(self.t) else (None, None)

    def eat(self):
        self.i += 1
        return self.t[self.i - 1]

    def expr(self):
        v = self.shift()
        while self.peek() in (('op', '+'), ('op', '-')):
            op = self.eat()[1]
            r = self.shift()
            v = self.be.add(v, r) if op == '+' else self.be.sub(v, r)
        return v

    def shift(self):
        v = self.unary()
        while self.peek() == ('op', '<<'):
            self.eat()
            v = self.be.shl(v, self.unary())
        return v

    def unary(self):
        # cast?
        if self.peek() == ('op', '(') and self.i + 1 < len(self.t) and self.t[self.i + 1][0] == 'kw':
            self.eat()
            kw = self.eat()[1]
            star = False
            if self.peek() == ('op', '*'):
                self.eat()
                star = True
            if self.eat() != ('op', ')'):
                raise ValueError('bad cast')
            v = self.unary()
            return self.be.cast(kw, star, v)
        if self.peek() == ('op', '('):
            self.eat()
            v = self.expr()
            if self.eat() != ('op', ')'):
                raise ValueError('missing )')
            return v
        if self.peek() == ('op', '-'):
            self.eat()
            return self.be.sub(self.be.num(0), self.unary())
        k, v = self.eat()
        if k == 'num':
            return self.be.num(v)
        if k == 'leaf':
            return self.be.leaf(v)
        raise ValueError('unexpected token %r' % (v,))


class Concrete:
    """values: ('i', python int wrapped to int64) | ('p', pattern) | ('d', float)"""

    def __init__(self, leaves=None):
        self.leaves = leaves or {}

    def num(self, n): return ('i', n)
    def leaf(self, name): return ('i', int(self.leaves[name]))
    def _w(self, n):
        n &= (1 << 64) - 1
        return n - (1 << 64) if n >= (1 << 63) else n
    def add(self, a, b):
        if a[0] == 'd' or b[0] == 'd':
            return ('d', self._f(a) + self._f(b))
        return ('i', self._w(a[1] + b[1]))
    def sub(self, a, b):
        if a[0] == 'd' or b[0] == 'd':
            return ('d', self._f(a) - self._f(b))
        return ('i', self._w(a[1] - b[1]))
    def shl(self, a, b): return ('i', self._w(a[1] << b[1]))
    def _f(self, v): return v[1] if v[0] == 'd' else float(v[1])
    def cast(self, kw, star, v):
        if kw == 'void' and star:
            return ('p', v[1] & ((1 << 64) - 1))
        if kw == 'double':
            if v[0] == 'p':      # gdb: a pointer cast to double reinterprets... (checked against gdb 13 on sample values)
                return ('d', struct.unpack('<d', struct.pack('<Q', v[1]))[0])
            return ('d', float(v[1]))
        return v


def eval_concrete(text, leaves=None):
    p = Parser(tokenize(text), Concrete(leaves))
    v = p.expr()
    if p.i != len(p.t):
        raise ValueError('trailing tokens')
    return v[1] if v[0] == 'd' else float(v[1])


class Z3BE:
    def __init__(self, z3, leaves):
        self.z3, self.leaves = z3, leaves

    def num(self, n): return ('i', self.z3.BitVecVal(n, 64))
    def leaf(self, name): return ('i', self.leaves[name])
    def add(self, a, b):
        z3 = self.z3
        if a[0] == 'd' or b[0] == 'd':
            return ('d', z3.fpAdd(z3.RNE(), self._f(a), self._f(b)))
        return ('i', a[1] + b[1])
    def sub(self, a, b):
        z3 = self.z3
        if a[0] == 'd' or b[0] == 'd':
            return ('d', z3.fpSub(z3.RNE(), self._f(a), self._f(b)))
        return ('i', a[1] - b[1])
    def shl(self, a, b): return ('i', a[1] << b[1])
    def _f(self, v):
        z3 = self.z3
        return v[1] if v[0] == 'd' else z3.fpSignedToFP(z3.RNE(), v[1], z3.Float64())
    def cast(self, kw, star, v):
        z3 = self.z3
        if kw == 'void' and star:
            return ('p', v[1])
        if kw == 'double':
            if v[0] == 'p':
                return ('d', z3.fpBVToFP(v[1], z3.Float64()))
            return ('d', self._f(v))
        return v


def eval_z3(z3, text, leaves):
    p = Parser(tokenize(text), Z3BE(z3, leaves))
    v = p.expr()
    if p.i != len(p.t):
        raise ValueError('trailing tokens')
    return v
