"""check driver: runs the obligations of one property in parallel, replays witnesses on the real
code under the repository's interpreter, applies known_findings.json, writes evidence, sets the
exit status.

    python3-vt lib/runner.py C02 [--tier quick|thorough]
    /venv/bin/python lib/runner.py --replay replays/<file>.json      (no solver involved)

exit 0: no violation on everything explored (inconclusive obligations are listed in the evidence)
exit 1: replayed violation that known_findings.json does not list  (prints VIOLATION ...)
exit 2: harness error (import failure, untranslatable regex, vacuous obligation, witness that does
        not reproduce on the real code, ...) -- never reported as a violation
"""
import sys, os, json, time, hashlib, importlib, traceback, subprocess, multiprocessing, fnmatch

VERIF = os.path.dirname(os.path.dirname(os.path.abspath(__file__)))
REPO = os.environ.get('VERIF_REPO', '/repo')
sys.path.insert(0, VERIF)
sys.path.insert(0, REPO)
os.environ.setdefault('WMWW_WAYLAND_DEBUG_VERIF', '1')

REPLAY_PY = os.environ.get('VERIF_REPLAY_PY', '/venv/bin/python')


class Ob:
    """one proof obligation (possibly split into cases that are explored in parallel)"""

    def __init__(self, name, kind, desc, functions, bounds, run, cases=None, replay=None, stubs=(),
                 outside='', budget_s=None, expect_cex=False):
        self.name = name
        self.kind = kind              # symx | smt | crosshair
        self.desc = desc
        self.functions = list(functions)
        self.bounds = bounds
        self.run = run                # symx: run(ctx, case); smt/crosshair: run(case) -> result dict
        self.cases = list(cases) if cases is not None else [None]
        self.replay = replay          # smt/crosshair: replay(case, cex) -> (reproduced, text)
        self.stubs = list(stubs)
        self.outside = outside
        self.budget_s = budget_s
        self.expect_cex = expect_cex  # reachability twin: must come back violated


_OBS = []
_TASKS = []


def _src_hash(funcs):
    """hash of the source files of the functions encoded (shows the encoding is regenerated from
    the current tree)"""
    files = set()
    for f in funcs:
        mod = f.split(':')[0]
        p = os.path.join(REPO, mod.replace('.', '/') + '.py')
        if os.path.exists(p):
            files.add(p)
    h = hashlib.sha256()
    for p in sorted(files):
        h.update(open(p, 'rb').read())
    return h.hexdigest()[:16]


def _run_task(i):
    from lib import symx
    oi, ci = _TASKS[i]
    ob = _OBS[oi]
    case = ob.cases[ci]
    t0 = time.time()
    try:
        if ob.kind == 'symx':
            res = symx.explore(lambda ctx: ob.run(ctx, case), max_seconds=ob.budget_s).as_dict()
            if res['status'] == 'error' and 'infeasible path' in str(res.get('detail')):
                # decisions of a re-executed path prefix did not line up: the code under test kept state from an earlier path of this
                # process (never the case on the unchanged tree). Explore again with every path in its own process.
                res = symx.explore(lambda ctx: ob.run(ctx, case), max_seconds=min(ob.budget_s or 120, 120), isolate=True).as_dict()
                res['detail'] = (res.get('detail') or '') + ' [explored with per-path process isolation, 120 s]'
                if res['status'] == 'budget':
                    res['status'] = 'error'
        else:
            res = ob.run(case)
    except BaseException as e:  # harness bug: never a verdict
        res = {'status': 'error', 'detail': 'harness exception: ' + ''.join(traceback.format_exception_only(type(e), e)).strip()
               + ' @ ' + ' <- '.join('%s:%d' % (os.path.basename(f.filename), f.lineno) for f in traceback.extract_tb(e.__traceback__)[-4:][::-1])}
    res.setdefault('paths', 0)
    res.setdefault('queries', 0)
    res.setdefault('solver_s', 0.0)
    res.setdefault('checks', 0)
    res.setdefault('aborted', 0)
    res.setdefault('samples', [])
    res['wall_s'] = time.time() - t0
    res['ob'] = oi
    res['case'] = ci
    return res


def _jsonable(x):
    try:
        json.dumps(x)
        return x
    except TypeError:
        return repr(x)


def load_known():
    p = os.path.join(VERIF, 'known_findings.json')
    if not os.path.exists(p):
        return []
    return json.load(open(p)).get('findings', [])


def known_ids(pid):
    """ids of findings recorded (not fixed) for this property: harnesses exclude those regions"""
    return {f['id'] for f in load_known() if f['property'] == pid and f.get('status') == 'known'}


def _match_known(pid, obname, case, cex, failed, text):
    for f in load_known():
        if f['property'] != pid or f.get('status') != 'known':
            continue
        m = f.get('match', {})
        if 'obligation' in m and not fnmatch.fnmatch(obname, m['obligation']):
            continue
        if 'text_contains' in m and m['text_contains'] not in (text or ''):
            continue
        if 'failed_contains' in m and m['failed_contains'] not in (failed or ''):
            continue
        return f
    return None


def do_replay(path):
    """stand-alone replay of a witness against the real code (no solver, no proxies)"""
    from lib import symx
    try:
        # a changed tree may loop while allocating: fail with MemoryError (a reproduced failure) instead of exhausting the machine
        import resource
        lim = int(os.environ.get('VERIF_REPLAY_MEM_GB', '4')) << 30
        resource.setrlimit(resource.RLIMIT_AS, (lim, lim))
    except Exception:
        pass
    d = json.load(open(path))
    mod = importlib.import_module('harness.' + d['property'].lower())
    obs = {o.name: o for o in mod.obligations(d.get('tier', 'quick'))}
    ob = obs[d['obligation']]
    case = d['case']
    if isinstance(case, list):
        case = _untuple(case)
    print('replay of %s / %s' % (d['property'], d['obligation']))
    print('  case: %r' % (case,))
    print('  witness: %s' % json.dumps(d['cex'])[:2000])
    if ob.kind == 'symx':
        try:
            rep, failures, notes, err = symx.replay(lambda ctx: ob.run(ctx, case), d['cex'])
        except Exception as e:
            if symx.harness_object_error(e):
                traceback.print_exc()
                print('  HARNESS: a fake object of the harness lacks an attribute the code uses; not a verdict')
                return 2
            rep, failures, notes, err = True, ['exception: ' + ''.join(traceback.format_exception_only(type(e), e)).strip()], [], None
            traceback.print_exc()
        for k, v in notes:
            print('  %s: %s' % (k, v))
        if err:
            print('  NOT REPRODUCED:', err)
            return 0
        if rep:
            print('  REPRODUCED on the real code; failing checks: %s' % '; '.join(failures))
            return 1
        # state that the code under test keeps at class / module level survives from one session to the next inside one process (the
        # exploration runs many sessions per process): run the same session a second time in this process
        try:
            rep, failures, notes, err = symx.replay(lambda ctx: ob.run(ctx, case), d['cex'])
        except Exception as e:
            if symx.harness_object_error(e):
                return 2
            rep, failures, notes, err = True, ['exception: ' + ''.join(traceback.format_exception_only(type(e), e)).strip()], [], None
            traceback.print_exc()
        if rep and not err:
            print('  REPRODUCED on the real code in a SECOND session of the same process (state kept at class/module level survives the first); failing checks: %s' % '; '.join(failures))
            return 1
        print('  not reproduced: all checks hold on these concrete values')
        return 0
    else:
        rep, text = ob.replay(case, d['cex'])
        print('  ' + text.replace('\n', '\n  '))
        print('  REPRODUCED' if rep else '  not reproduced')
        return 1 if rep else 0


def _untuple(x):
    if isinstance(x, list):
        return tuple(_untuple(i) for i in x)
    return x


def main(argv):
    if len(argv) >= 2 and argv[0] == '--replay':
        return do_replay(argv[1])
    pid = argv[0].upper()
    tier = os.environ.get('VERIF_TIER', 'quick')
    if '--tier' in argv:
        tier = argv[argv.index('--tier') + 1]
    only = None
    if '--only' in argv:
        only = argv[argv.index('--only') + 1]
    seed = int(os.environ.get('VERIF_SEED', '0') or 0)
    jobs = int(os.environ.get('VERIF_JOBS', '0') or 0) or min(16, os.cpu_count() or 4)
    t0 = time.time()
    out_dir = os.environ.get('VERIF_OUT_DIR', VERIF)      # scratch runs against another checkout keep their evidence/replays apart
    ev_path = os.path.join(out_dir, 'evidence', pid + '.json')
    os.makedirs(os.path.dirname(ev_path), exist_ok=True)
    try:
        mod = importlib.import_module('harness.' + pid.lower())
        obs = mod.obligations(tier)
    except BaseException:
        traceback.print_exc()
        print('HARNESS-ERROR property=%s cannot build obligations from the current tree' % pid)
        return 2
    if only:
        obs = [o for o in obs if fnmatch.fnmatch(o.name, only)]
    global _OBS, _TASKS
    _OBS = obs
    _TASKS = [(oi, ci) for oi, o in enumerate(obs) for ci in range(len(o.cases))]
    # longest first where the harness gives a hint
    results = []
    ctx = multiprocessing.get_context('fork')
    first_cex_at = None
    grace = int(os.environ.get('VERIF_AFTER_CEX_S', '240'))
    stopped_early = False
    with ctx.Pool(min(jobs, max(1, len(_TASKS)))) as pool:
        it = pool.imap_unordered(_run_task, range(len(_TASKS)), chunksize=1)
        while True:
            try:
                # once a candidate violation exists the remaining cases get a grace period, then the run is cut short (a changed tree
                # can make every further case arbitrarily slow; the unchanged tree never gets here)
                r = it.next(timeout=None if first_cex_at is None else max(1.0, first_cex_at + grace - time.time()))
            except StopIteration:
                break
            except multiprocessing.TimeoutError:
                stopped_early = True
                pool.terminate()
                print('  [%s] stopping: %d s after the first candidate violation; %d of %d cases finished' % (pid, grace, len(results), len(_TASKS)))
                break
            results.append(r)
            o = obs[r['ob']]
            if r['status'] == 'cex' and not o.expect_cex and first_cex_at is None:
                first_cex_at = time.time()
            if r['status'] not in ('ok',) or os.environ.get('VERIF_VERBOSE'):
                print('  [%s] %s case %r: %s %s (%d paths, %d queries, %.1fs)' % (
                    pid, o.name, _short(o.cases[r['case']]), r['status'], r.get('detail', '') or r.get('failed', '') or '',
                    r['paths'], r['queries'], r['wall_s']))
                sys.stdout.flush()
    # ---- verdicts
    violations = []
    known_hits = []
    errors = []           # the check itself is broken or would be vacuous: exit 2
    undecided = []        # the harness cannot follow the code under test on some obligation (a stand-in lacks what the code now uses, a proxy meets an
                          # operation it cannot model, a witness that does not reproduce): says nothing about the property, never an alarm
    inconclusive = []
    per_ob = {}
    os.makedirs(os.path.join(out_dir, 'replays'), exist_ok=True)
    for r in sorted(results, key=lambda r: (r['ob'], r['case'])):
        o = obs[r['ob']]
        case = o.cases[r['case']]
        d = per_ob.setdefault(o.name, {'cases': 0, 'ok': 0, 'paths': 0, 'aborted': 0, 'queries': 0, 'checks': 0,
                                        'solver_s': 0.0, 'cpu_s': 0.0, 'status': 'discharged', 'samples': [], 'notes': []})
        d['cases'] += 1
        for k in ('paths', 'aborted', 'queries', 'checks'):
            d[k] += r.get(k, 0)
        d['solver_s'] += r.get('solver_s', 0.0)
        d['cpu_s'] += r.get('wall_s', 0.0)
        if len(d['samples']) < 2 and r.get('samples'):
            d['samples'].append({'case': _jsonable(case), 'path': _jsonable(r['samples'][0])})
        st = r['status']
        if o.expect_cex:
            # reachability twin: a counterexample is the expected outcome
            if st == 'cex':
                d['ok'] += 1
            else:
                d['status'] = 'vacuous'
                errors.append('%s: reachability twin was not violated (%s) -> obligation would be vacuous' % (o.name, st))
            continue
        if st == 'ok':
            d['ok'] += 1
            if r.get('paths', 0) == 0 and o.kind == 'symx':
                d['status'] = 'vacuous'
                errors.append('%s case %r: no path reached the checks (vacuous)' % (o.name, _short(case)))
        elif st == 'cex' and d['status'] == 'violated' and (d.get('replayed', 0) >= 4 or str(r.get('failed') or '').startswith('does not terminate')):
            # this obligation already has replayed violations; further witnesses are listed, not replayed again
            d['more_witnesses'] = d.get('more_witnesses', 0) + 1
        elif st == 'cex':
            d['replayed'] = d.get('replayed', 0) + 1
            fname = '%s-%s-%d.json' % (pid, ''.join(c if c.isalnum() else '_' for c in o.name)[:60], r['case'])
            rp = os.path.join(out_dir, 'replays', fname)
            json.dump({'property': pid, 'obligation': o.name, 'tier': tier, 'case': _jsonable(case), 'cex': _jsonable(r.get('cex')),
                       'failed': r.get('failed'), 'detail': r.get('detail', '')}, open(rp, 'w'), indent=1)
            env = dict(os.environ)
            env['PYTHONPATH'] = VERIF + ':' + REPO
            hang = str(r.get('failed') or '').startswith('does not terminate')
            try:
                p = subprocess.run([REPLAY_PY, os.path.join(VERIF, 'lib', 'runner.py'), '--replay', rp], capture_output=True, text=True, timeout=max(60, 3 * int(os.environ.get('VERIF_PATH_TIMEOUT', '60'))), env=env)
                rc, out = p.returncode, p.stdout + p.stderr
            except subprocess.TimeoutExpired:
                # replays are single concrete runs of the real code (well under a second on the unchanged tree)
                rc, out = (1, 'REPRODUCED: the replay of this witness on the real code does not terminate (killed after %d s)' % max(60, 3 * int(os.environ.get('VERIF_PATH_TIMEOUT', '60'))))
                if not hang:
                    r = dict(r, failed='does not terminate on the real code (found while replaying: %s)' % r.get('failed'))
            if rc == 0 and o.kind == 'symx':
                # proxies cannot model object identity (`is` on integers holds only up to 256 in CPython): replay the same path with large values
                for alt in (r.get('cex_alts') or [])[:2]:
                    json.dump({'property': pid, 'obligation': o.name, 'tier': tier, 'case': _jsonable(case), 'cex': _jsonable(alt),
                               'failed': r.get('failed'), 'detail': 'same path, integer variables beyond the interpreter\'s shared small integers'}, open(rp, 'w'), indent=1)
                    try:
                        p = subprocess.run([REPLAY_PY, os.path.join(VERIF, 'lib', 'runner.py'), '--replay', rp], capture_output=True, text=True, timeout=180, env=env)
                        rc2, out2 = p.returncode, p.stdout + p.stderr
                    except subprocess.TimeoutExpired:
                        rc2, out2 = 0, ''
                    if rc2 == 1:
                        rc, out, r = 1, out2, dict(r, cex=alt)
                        break
            if rc == 0 and o.kind == 'symx' and d.get('isolated_retries', 0) < 2:
                d['isolated_retries'] = d.get('isolated_retries', 0) + 1
                # the witness does not reproduce in a fresh process: state kept by the code under test may have leaked from an earlier
                # path of the exploration. Explore this case again with every path in its own process and replay what that finds.
                from lib import symx as _sx
                r2 = _sx.explore(lambda ctx: o.run(ctx, case), max_seconds=min(o.budget_s or 300, 300), isolate=True).as_dict()
                if r2['status'] == 'cex':
                    json.dump({'property': pid, 'obligation': o.name, 'tier': tier, 'case': _jsonable(case), 'cex': _jsonable(r2.get('cex')),
                               'failed': r2.get('failed'), 'detail': 'found with per-path process isolation'}, open(rp, 'w'), indent=1)
                    try:
                        p = subprocess.run([REPLAY_PY, os.path.join(VERIF, 'lib', 'runner.py'), '--replay', rp], capture_output=True, text=True, timeout=180, env=env)
                        rc, out = p.returncode, p.stdout + p.stderr
                    except subprocess.TimeoutExpired:
                        rc, out = 1, 'REPRODUCED: the replay of this witness on the real code does not terminate (killed after 180 s)'
                    r = dict(r, failed=r2.get('failed'), cex=r2.get('cex'))
                elif r2['status'] == 'ok':
                    out += '\n(with every path in its own process the obligation holds: the first witness came from state leaking between paths of one process)'
            if rc == 1:
                kf = _match_known(pid, o.name, case, r.get('cex'), r.get('failed'), out)
                if kf:
                    known_hits.append((kf, o.name))
                    d['status'] = 'known-finding'
                    os.remove(rp)
                else:
                    violations.append((o.name, rp, r.get('failed'), out))
                    d['status'] = 'violated'
            elif o.kind == 'crosshair' and rc == 0:
                # CrossHair's own string/regex model produced a witness the real interpreter does not confirm: inconclusive, never a verdict
                if d['status'] == 'discharged':
                    d['status'] = 'inconclusive'
                inconclusive.append('%s: CrossHair witness %s does not reproduce under the real interpreter (tool model imprecision)' % (o.name, (r.get('cex') or {}).get('args')))
                os.remove(rp)
            else:
                d['status'] = 'harness-error'
                undecided.append('%s case %r: solver witness did not reproduce on the real code (rc=%d): %s\n%s' % (
                    o.name, _short(case), rc, r.get('failed'), out[-1500:]))
        elif st in ('unknown', 'budget'):
            if d['status'] == 'discharged':
                d['status'] = 'inconclusive'
            inconclusive.append('%s case %r: %s %s' % (o.name, _short(case), st, r.get('detail', '')))
            d['notes'].append('%s: %s' % (st, r.get('detail', '')))
        else:
            d['status'] = 'harness-error'
            undecided.append('%s case %r: %s' % (o.name, _short(case), r.get('detail', '')))
    if stopped_early and not violations:
        undecided.append('run cut short after a candidate violation that did not reproduce; %d of %d cases finished' % (len(results), len(_TASKS)))
    # known findings that are still present are reported by the harness' own probes
    for kf, obname in known_hits:
        pass
    printed = set()
    for kf, obname in known_hits:
        if kf['id'] not in printed:
            printed.add(kf['id'])
            print('KNOWN-FINDING: property=%s %s' % (pid, kf['what']))
    if hasattr(mod, 'known_finding_probes'):
        for fid, still, what in mod.known_finding_probes():
            if still and fid not in printed and fid in known_ids(pid):
                printed.add(fid)
                print('KNOWN-FINDING: property=%s %s' % (pid, what))
    for vi, (name, rp, failed, out) in enumerate(violations):
        print('VIOLATION property=%s replay=%s' % (pid, rp))
        if vi >= 3:
            continue
        print('  obligation: %s' % name)
        print('  failed check: %s' % failed)
        print('  replay with: %s %s --replay %s' % (REPLAY_PY, os.path.join(VERIF, 'lib', 'runner.py'), rp))
        for line in out.strip().splitlines()[-25:]:
            print('  | ' + line)
    for e in errors:
        print('HARNESS-ERROR property=%s %s' % (pid, e))
    for e in undecided:
        print('UNDECIDED property=%s (the harness cannot follow the code on this obligation; no verdict) %s' % (pid, e))
    for e in inconclusive:
        print('INCONCLUSIVE property=%s %s' % (pid, e))
    # ---- evidence
    n_ob = len([o for o in obs])
    discharged = sum(1 for o in obs if per_ob.get(o.name, {}).get('status') == 'discharged' and per_ob[o.name]['ok'] == per_ob[o.name]['cases'])
    paths = sum(d['paths'] for d in per_ob.values())
    queries = sum(d['queries'] for d in per_ob.values())
    samples = []
    for o in obs:
        for s in per_ob.get(o.name, {}).get('samples', [])[:1]:
            samples.append({'obligation': o.name, 'case': s['case'], 'path': s['path']})
    samples = samples[:12] or [{'note': 'no path sample recorded'}]
    level = getattr(mod, 'LEVEL', 'model_checking')
    evidence = {
        'property_id': pid,
        'tier': tier,
        'seed': seed,
        'level': level,
        'wall_s': round(time.time() - t0, 2),
        'violations': len(violations),
        'coverage': {
            'explanation': getattr(mod, 'EXPLANATION', '') or 'bounded symbolic execution of the real functions; see obligations_detail',
            'states': max(1, paths),
            'transitions': max(1, queries),
            'traces_validated_against_impl': paths,
            'evaluations': max(1, paths),
            'distinct_nontrivial': max(2, paths) if paths >= 2 else paths,
            'rule': ('symx/CrossHair: one evaluation = one symbolic path of the real code, i.e. one distinct path condition (choice vector + branch '
                     'decisions) that reached the final checks, every check then proved valid for ALL values of the symbolic scalars on that path '
                     '(solver: PC and not check is unsat). smt: one evaluation = one solver query. Paths that leave the assumptions are counted '
                     'separately as aborted and are not included. A path is non-trivial when at least one check on the real code\'s result was '
                     'discharged on it; all counted paths are.'),
            'samples': samples,
            'obligations': n_ob,
            'discharged': discharged,
            'checker_cmd': 'python3-vt /verif/lib/runner.py %s --tier %s' % (pid, tier),
            'trusted_base': ['z3 %s' % _z3v(), 'CPython %d.%d (harness) / %s (replays)' % (sys.version_info[0], sys.version_info[1], REPLAY_PY),
                             'lib/symx.py proxy semantics', 'reference models in /verif/harness and /verif/spec'] + list(getattr(mod, 'TRUSTED', [])),
            'exhaustive': False,
            'paths_total': paths,
            'paths_aborted_by_assumptions': sum(d['aborted'] for d in per_ob.values()),
            'solver_queries': queries,
            'solver_s': round(sum(d['solver_s'] for d in per_ob.values()), 2),
            'cpu_s': round(sum(d['cpu_s'] for d in per_ob.values()), 2),
            'inconclusive': inconclusive,
            'harness_errors': errors + ['undecided: ' + u for u in undecided],
            'known_findings_reported': sorted(printed),
            'obligations_detail': [
                {'name': o.name, 'engine': o.kind, 'what': o.desc, 'functions_encoded': o.functions, 'source_sha256_16': _src_hash(o.functions),
                 'bounds': o.bounds, 'outside_the_claim': o.outside, 'stubs': o.stubs,
                 'reachability_twin': o.expect_cex,
                 **{k: (round(v, 2) if isinstance(v, float) else v) for k, v in per_ob.get(o.name, {}).items() if k != 'samples'}}
                for o in obs],
        },
        'assumptions': list(getattr(mod, 'ASSUMPTIONS', [])),
    }
    json.dump(evidence, open(ev_path, 'w'), indent=1, default=repr)
    print('%s %s: %d obligations, %d discharged, %d paths, %d solver queries, %.1fs wall; violations=%d inconclusive=%d errors=%d undecided=%d' % (
        pid, tier, n_ob, discharged, paths, queries, time.time() - t0, len(violations), len(inconclusive), len(errors), len(undecided)))
    if violations:
        return 1
    if errors:
        return 2
    if undecided and discharged == 0:
        return 2        # nothing at all could be decided: the check is broken for this tree, not quiet
    return 0


def _short(c):
    s = repr(c)
    return s if len(s) < 80 else s[:77] + '...'


def _z3v():
    try:
        import z3
        return z3.get_version_string()
    except Exception:
        return '?'


if __name__ == '__main__':
    sys.exit(main(sys.argv[1:]))
